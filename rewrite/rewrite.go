// Package rewrite is the scratch-copy seam inserter (DESIGN.md 2.1). It
// type-checks every package of the module found at a scratch root and applies
// type-driven, semantics-preserving rewrites that put map iteration order,
// the wall clock, process identity, the file system and process exit behind
// the simulator runtime (internal/simrt, injected separately).
package rewrite

import (
	"bytes"
	"encoding/json"
	"fmt"
	"go/ast"
	"go/format"
	"go/importer"
	"go/parser"
	"go/token"
	"go/types"
	"io"
	"os"
	"os/exec"
	"path/filepath"
	"sort"
	"strconv"
	"strings"
)

// Seam is one rewritten site.
type Seam struct {
	Kind string `json:"kind"` // maprange, mapfunc, clock, os, exit, ident, rand
	Site string `json:"site"` // relpath:line
	What string `json:"what"`
}

// Report is what the rewriter found and did.
type Report struct {
	Module        string   `json:"module"`
	Seams         []Seam   `json:"seams"`
	Unseamed      []string `json:"unseamed"` // nondeterminism sources without a seam: the check must not pass silently
	Files         []string `json:"files_rewritten"`
	MainPkgs      []string `json:"main_pkgs"`
	PreemptPoints int      `json:"preempt_points"`
}

type listPkg struct {
	ImportPath string
	Dir        string
	Export     string
	GoFiles    []string
	CgoFiles   []string
	Standard   bool
	Module     *struct {
		Path string
		Main bool
		Dir  string
	}
	Error *struct{ Err string }
}

// GoEnv is the environment every go command of the harness runs with.
func GoEnv() []string {
	env := os.Environ()
	out := env[:0:0]
	for _, e := range env {
		k := strings.SplitN(e, "=", 2)[0]
		switch k {
		case "GOFLAGS", "GOPROXY", "GOSUMDB", "GOTOOLCHAIN", "GOWORK":
			continue
		}
		out = append(out, e)
	}
	return append(out, "GOFLAGS=-mod=mod", "GOPROXY=off", "GOSUMDB=off", "GOTOOLCHAIN=local", "GOWORK=off")
}

// GoBin is the toolchain used for everything.
func GoBin() string {
	if p := os.Getenv("VERIF_GO"); p != "" {
		return p
	}
	for _, p := range []string{"/usr/local/bin/go1.26.8", "/opt/veriftools/go1.26.8/bin/go"} {
		if _, err := os.Stat(p); err == nil {
			return p
		}
	}
	return "go1.26.8"
}

var osMap = map[string]string{
	"ReadFile": "OsReadFile", "WriteFile": "OsWriteFile", "Create": "OsCreate", "Open": "OsOpen",
	"OpenFile": "OsOpenFile", "Mkdir": "OsMkdir", "MkdirAll": "OsMkdirAll", "Remove": "OsRemove",
	"RemoveAll": "OsRemoveAll", "Rename": "OsRename", "Truncate": "OsTruncate", "Chmod": "OsChmod",
	"Symlink": "OsSymlink", "Link": "OsLink", "Stat": "OsStat", "Lstat": "OsLstat", "ReadDir": "OsReadDir",
	"CreateTemp": "OsCreateTemp", "MkdirTemp": "OsMkdirTemp",
	"Exit": "Exit", "Getpid": "Getpid", "Getppid": "Getppid", "Getenv": "Getenv", "LookupEnv": "LookupEnv", "Hostname": "Hostname", "Getuid": "Getuid", "Geteuid": "Geteuid", "Getgid": "Getgid", "Getegid": "Getegid",
}

var osUnseamed = map[string]bool{"Environ": true, "ExpandEnv": true, "UserHomeDir": true, "UserConfigDir": true, "UserCacheDir": true, "Chown": true, "Lchown": true, "Chtimes": true, "StartProcess": true, "NewFile": true, "Pipe": true, "CopyFS": true, "DirFS": true, "OpenRoot": true, "OpenInRoot": true}

var ioutilMap = map[string]string{"ReadFile": "OsReadFile", "WriteFile": "OsWriteFile", "TempFile": "OsCreateTemp", "TempDir": "OsMkdirTemp"}

var timeMap = map[string]string{"Now": "Now", "Since": "Since", "Until": "Until"}
var timeUnseamed = map[string]bool{"Sleep": true, "After": true, "Tick": true, "NewTimer": true, "AfterFunc": true, "NewTicker": true}

var randMap = map[string]string{
	"Int": "RandInt", "Intn": "RandIntn", "Int31": "RandInt31", "Int31n": "RandInt31n", "Int63": "RandInt63",
	"Int63n": "RandInt63n", "Uint32": "RandUint32", "Uint64": "RandUint64", "Float32": "RandFloat32",
	"Float64": "RandFloat64", "Perm": "RandPerm", "Shuffle": "RandShuffle", "Seed": "RandSeed",
}
var randV2Map = map[string]string{
	"Int": "RandInt", "IntN": "RandIntN", "Int32": "RandInt32", "Int32N": "RandInt32N", "Int64": "RandInt64",
	"Int64N": "RandInt64N", "Uint32": "RandUint32", "Uint64": "RandUint64", "Uint32N": "RandUint32N",
	"Uint64N": "RandUint64N", "UintN": "RandUintN", "Uint": "RandUint", "Float32": "RandFloat32", "Float64": "RandFloat64",
	"Perm": "RandPerm", "Shuffle": "RandShuffle",
}

// rand functions that are deterministic given their arguments
var randPure = map[string]bool{"New": true, "NewSource": true, "NewZipf": true, "NewPCG": true, "NewChaCha8": true}

const simrtAlias = "vsimrt"

// Run rewrites the module rooted at root in place.
func Run(root string, log io.Writer) (*Report, error) {
	cmd := exec.Command(GoBin(), "list", "-export", "-deps", "-json=ImportPath,Dir,Export,GoFiles,CgoFiles,Standard,Module,Error", "./...")
	cmd.Dir = root
	cmd.Env = GoEnv()
	var stderr bytes.Buffer
	cmd.Stderr = &stderr
	out, err := cmd.Output()
	if err != nil {
		return nil, fmt.Errorf("go list failed: %v\n%s", err, stderr.String())
	}
	dec := json.NewDecoder(bytes.NewReader(out))
	exports := map[string]string{}
	var modPkgs []*listPkg
	rep := &Report{}
	for {
		var p listPkg
		if err := dec.Decode(&p); err == io.EOF {
			break
		} else if err != nil {
			return nil, fmt.Errorf("go list json: %v", err)
		}
		if p.Error != nil {
			return nil, fmt.Errorf("go list: package %s: %s", p.ImportPath, p.Error.Err)
		}
		if p.Export != "" {
			exports[p.ImportPath] = p.Export
		}
		if p.Module != nil && p.Module.Main {
			pp := p
			modPkgs = append(modPkgs, &pp)
			rep.Module = p.Module.Path
		}
	}
	if rep.Module == "" {
		return nil, fmt.Errorf("no main-module packages found under %s", root)
	}
	fset := token.NewFileSet()
	lookup := func(path string) (io.ReadCloser, error) {
		if path == "unsafe" {
			return nil, fmt.Errorf("unsafe has no export data")
		}
		f, ok := exports[path]
		if !ok {
			return nil, fmt.Errorf("no export data for %q", path)
		}
		return os.Open(f)
	}
	imp := importer.ForCompiler(fset, "gc", lookup)
	sort.Slice(modPkgs, func(i, j int) bool { return modPkgs[i].ImportPath < modPkgs[j].ImportPath })
	for _, p := range modPkgs {
		if err := rewritePkg(fset, imp, root, p, rep); err != nil {
			return nil, err
		}
	}
	sort.Slice(rep.Seams, func(i, j int) bool {
		if rep.Seams[i].Site != rep.Seams[j].Site {
			return rep.Seams[i].Site < rep.Seams[j].Site
		}
		return rep.Seams[i].What < rep.Seams[j].What
	})
	sort.Strings(rep.Unseamed)
	if log != nil {
		fmt.Fprintf(log, "simrewrite: %d seams in %d files, %d unseamed\n", len(rep.Seams), len(rep.Files), len(rep.Unseamed))
	}
	return rep, nil
}

func rewritePkg(fset *token.FileSet, imp types.Importer, root string, p *listPkg, rep *Report) error {
	var files []*ast.File
	var names []string
	for _, n := range append(append([]string{}, p.GoFiles...), p.CgoFiles...) {
		full := filepath.Join(p.Dir, n)
		f, err := parser.ParseFile(fset, full, nil, parser.ParseComments)
		if err != nil {
			return fmt.Errorf("parse %s: %v", full, err)
		}
		files = append(files, f)
		names = append(names, full)
	}
	if len(files) == 0 {
		return nil
	}
	info := &types.Info{
		Types:      map[ast.Expr]types.TypeAndValue{},
		Uses:       map[*ast.Ident]types.Object{},
		Defs:       map[*ast.Ident]types.Object{},
		Selections: map[*ast.SelectorExpr]*types.Selection{},
	}
	var terrs []string
	conf := types.Config{Importer: imp, FakeImportC: true, Error: func(err error) { terrs = append(terrs, err.Error()) }}
	_, _ = conf.Check(p.ImportPath, fset, files, info)
	if len(terrs) > 0 {
		return fmt.Errorf("type errors in %s (the rewriter needs a tree that compiles):\n  %s", p.ImportPath, strings.Join(terrs, "\n  "))
	}
	isMain := files[0].Name.Name == "main"
	if isMain {
		rel, _ := filepath.Rel(root, p.Dir)
		rep.MainPkgs = append(rep.MainPkgs, rel)
	}
	for i, f := range files {
		rel, _ := filepath.Rel(root, names[i])
		rw := &fileRewriter{fset: fset, info: info, file: f, rel: rel, rep: rep, modPath: rep.Module}
		rw.run(isMain)
		if !rw.changed {
			continue
		}
		var buf bytes.Buffer
		if err := format.Node(&buf, fset, f); err != nil {
			return fmt.Errorf("print %s: %v", rel, err)
		}
		if err := os.WriteFile(names[i], buf.Bytes(), 0o644); err != nil {
			return err
		}
		rep.Files = append(rep.Files, rel)
	}
	return nil
}

type fileRewriter struct {
	fset    *token.FileSet
	info    *types.Info
	file    *ast.File
	rel     string
	rep     *Report
	modPath string
	changed bool
	useSim  bool
}

func (rw *fileRewriter) site(pos token.Pos) string {
	return rw.rel + ":" + strconv.Itoa(rw.fset.Position(pos).Line)
}

func (rw *fileRewriter) simSel(name string) *ast.SelectorExpr {
	rw.useSim = true
	rw.changed = true
	return &ast.SelectorExpr{X: ast.NewIdent(simrtAlias), Sel: ast.NewIdent(name)}
}

func (rw *fileRewriter) seam(kind string, pos token.Pos, what string) {
	rw.rep.Seams = append(rw.rep.Seams, Seam{Kind: kind, Site: rw.site(pos), What: what})
}

func (rw *fileRewriter) unseamed(pos token.Pos, what string) {
	rw.rep.Unseamed = append(rw.rep.Unseamed, rw.site(pos)+": "+what)
}

// pkgFunc resolves e to a package-level function (pkgpath, name).
func (rw *fileRewriter) pkgFunc(e ast.Expr) (string, string, *ast.SelectorExpr) {
	sel, ok := e.(*ast.SelectorExpr)
	if !ok {
		return "", "", nil
	}
	id, ok := sel.X.(*ast.Ident)
	if !ok {
		return "", "", nil
	}
	if _, ok := rw.info.Uses[id].(*types.PkgName); !ok {
		return "", "", nil
	}
	obj := rw.info.Uses[sel.Sel]
	if obj == nil || obj.Pkg() == nil {
		return "", "", nil
	}
	if _, ok := obj.(*types.Func); !ok {
		return "", "", nil
	}
	return obj.Pkg().Path(), obj.Name(), sel
}

func isMapType(t types.Type) bool {
	if t == nil {
		return false
	}
	_, ok := t.Underlying().(*types.Map)
	return ok
}

func (rw *fileRewriter) siteLit(pos token.Pos) *ast.BasicLit {
	return &ast.BasicLit{Kind: token.STRING, Value: strconv.Quote(rw.site(pos))}
}

// rewriteGoStmts puts every `go` statement behind the goroutine scheduling
// seam: id := Spawn(site); go func(){ Park(id, site); call }(); Yield(site).
// Function value and arguments are still evaluated in the calling goroutine
// at the go statement, as the language requires.
func (rw *fileRewriter) rewriteGoStmts() {
	counter := 0
	// lockCall recognises mu.Lock() / RLock() / Unlock() / RUnlock() on sync.Mutex
	// and sync.RWMutex (also promoted through embedding) and returns the
	// cooperative replacement call.
	lockCall := func(call *ast.CallExpr) *ast.CallExpr {
		sel, ok := call.Fun.(*ast.SelectorExpr)
		if !ok || len(call.Args) != 0 {
			return nil
		}
		selection := rw.info.Selections[sel]
		if selection == nil {
			return nil
		}
		fn, ok := selection.Obj().(*types.Func)
		if !ok {
			return nil
		}
		repl := map[string]string{
			"(*sync.Mutex).Lock": "Lock", "(*sync.Mutex).Unlock": "Unlock",
			"(*sync.RWMutex).Lock": "Lock", "(*sync.RWMutex).Unlock": "Unlock",
			"(*sync.RWMutex).RLock": "RLock", "(*sync.RWMutex).RUnlock": "RUnlock",
		}[fn.FullName()]
		if repl == "" {
			return nil
		}
		var recv ast.Expr = sel.X
		if _, isPtr := rw.info.TypeOf(sel.X).Underlying().(*types.Pointer); !isPtr {
			recv = &ast.UnaryExpr{Op: token.AND, X: sel.X}
		}
		rw.seam("lock", call.Pos(), fn.FullName())
		args := []ast.Expr{recv}
		if repl == "Lock" || repl == "RLock" {
			args = []ast.Expr{rw.siteLit(call.Pos()), recv}
		}
		return &ast.CallExpr{Fun: rw.simSel(repl), Args: args}
	}
	onceCall := func(call *ast.CallExpr) *ast.CallExpr {
		sel, ok := call.Fun.(*ast.SelectorExpr)
		if !ok || len(call.Args) != 1 {
			return nil
		}
		selection := rw.info.Selections[sel]
		if selection == nil {
			return nil
		}
		fn, ok := selection.Obj().(*types.Func)
		if !ok || fn.FullName() != "(*sync.Once).Do" {
			return nil
		}
		var recv ast.Expr = sel.X
		if _, isPtr := rw.info.TypeOf(sel.X).Underlying().(*types.Pointer); !isPtr {
			recv = &ast.UnaryExpr{Op: token.AND, X: sel.X}
		}
		rw.seam("once", call.Pos(), fn.FullName())
		return &ast.CallExpr{Fun: rw.simSel("OnceDo"), Args: []ast.Expr{rw.siteLit(call.Pos()), recv, call.Args[0]}}
	}
	fix := func(list []ast.Stmt) []ast.Stmt {
		has := false
		for _, st := range list {
			switch x := st.(type) {
			case *ast.GoStmt, *ast.SendStmt:
				has = true
			case *ast.ExprStmt:
				if c, ok := x.X.(*ast.CallExpr); ok {
					if _, ok := c.Fun.(*ast.SelectorExpr); ok {
						has = true
					}
				}
			case *ast.DeferStmt:
				has = true
			}
		}
		if !has {
			return list
		}
		var out []ast.Stmt
		for _, st := range list {
			switch x := st.(type) {
			case *ast.SendStmt:
				// a scheduling point in front of every channel send
				rw.seam("send", x.Pos(), "channel send")
				out = append(out, &ast.ExprStmt{X: &ast.CallExpr{Fun: rw.simSel("Yield"), Args: []ast.Expr{rw.siteLit(x.Pos())}}}, st)
				continue
			case *ast.ExprStmt:
				if c, ok := x.X.(*ast.CallExpr); ok {
					if r := lockCall(c); r != nil {
						x.X = r
					} else if r := onceCall(c); r != nil {
						x.X = r
					}
				}
				out = append(out, st)
				continue
			case *ast.DeferStmt:
				if r := lockCall(x.Call); r != nil {
					x.Call = r
				}
				out = append(out, st)
				continue
			}
			g, ok := st.(*ast.GoStmt)
			if !ok {
				out = append(out, st)
				continue
			}
			counter++
			site := rw.siteLit(g.Pos())
			idName := fmt.Sprintf("vsimGid%d", counter)
			rw.seam("go", g.Pos(), "go "+types.ExprString(g.Call.Fun))
			out = append(out, &ast.AssignStmt{Lhs: []ast.Expr{ast.NewIdent(idName)}, Tok: token.DEFINE, Rhs: []ast.Expr{&ast.CallExpr{Fun: rw.simSel("Spawn"), Args: []ast.Expr{site}}}})
			park := &ast.ExprStmt{X: &ast.CallExpr{Fun: rw.simSel("Park"), Args: []ast.Expr{ast.NewIdent(idName), rw.siteLit(g.Pos())}}}
			if fl, ok := g.Call.Fun.(*ast.FuncLit); ok {
				fl.Body.List = append([]ast.Stmt{park}, fl.Body.List...)
				out = append(out, g)
			} else {
				// bind function value and non-constant arguments now, call later
				fnName := fmt.Sprintf("vsimGf%d", counter)
				out = append(out, &ast.AssignStmt{Lhs: []ast.Expr{ast.NewIdent(fnName)}, Tok: token.DEFINE, Rhs: []ast.Expr{g.Call.Fun}})
				var args []ast.Expr
				for i, a := range g.Call.Args {
					tv, known := rw.info.Types[a]
					if known && (tv.Value != nil || tv.IsNil()) {
						args = append(args, a)
						continue
					}
					an := fmt.Sprintf("vsimGa%d_%d", counter, i)
					out = append(out, &ast.AssignStmt{Lhs: []ast.Expr{ast.NewIdent(an)}, Tok: token.DEFINE, Rhs: []ast.Expr{a}})
					args = append(args, ast.NewIdent(an))
				}
				call := &ast.CallExpr{Fun: ast.NewIdent(fnName), Args: args, Ellipsis: g.Call.Ellipsis}
				if g.Call.Ellipsis.IsValid() {
					call.Ellipsis = 1
				}
				body := &ast.BlockStmt{List: []ast.Stmt{park, &ast.ExprStmt{X: call}}}
				out = append(out, &ast.GoStmt{Call: &ast.CallExpr{Fun: &ast.FuncLit{Type: &ast.FuncType{Params: &ast.FieldList{}}, Body: body}}})
			}
			out = append(out, &ast.ExprStmt{X: &ast.CallExpr{Fun: rw.simSel("Yield"), Args: []ast.Expr{rw.siteLit(g.Pos())}}})
		}
		return out
	}
	ast.Inspect(rw.file, func(n ast.Node) bool {
		switch x := n.(type) {
		case *ast.BlockStmt:
			x.List = fix(x.List)
		case *ast.CaseClause:
			x.Body = fix(x.Body)
		case *ast.CommClause:
			x.Body = fix(x.Body)
		}
		return true
	})
}

// rewritePreempt inserts preemption points: at the entry of every function
// body and in front of every simple statement that mentions a package-level
// variable of the module (the only state two goroutines inside repository
// code can share without passing it to each other). simrt.Preempt is a no-op
// outside preemptive bubble worlds; inside one it parks the goroutine at a
// seed-determined subset of the points so that the scheduler decides who
// continues. This is what lets several simulated host threads be INSIDE
// FormatPacketDslExport at once with an interleaving the choice log owns.
func (rw *fileRewriter) rewritePreempt() {
	if os.Getenv("VERIF_NO_PREEMPT") != "" {
		return
	}
	pre := func(pos token.Pos) ast.Stmt {
		return &ast.ExprStmt{X: &ast.CallExpr{Fun: rw.simSel("Preempt"), Args: []ast.Expr{rw.siteLit(pos)}}}
	}
	// does e (not descending into function literals) mention a package-level variable of the module?
	mentions := func(nodes ...ast.Node) bool {
		found := false
		for _, n := range nodes {
			if n == nil || found {
				continue
			}
			ast.Inspect(n, func(m ast.Node) bool {
				if found {
					return false
				}
				switch x := m.(type) {
				case *ast.FuncLit:
					return false
				case *ast.Ident:
					if v, ok := rw.info.Uses[x].(*types.Var); ok && v.Pkg() != nil && !v.IsField() &&
						v.Parent() == v.Pkg().Scope() && (v.Pkg().Path() == rw.modPath || strings.HasPrefix(v.Pkg().Path(), rw.modPath+"/")) {
						found = true
					}
				}
				return true
			})
		}
		return found
	}
	nn := func(e ast.Expr) ast.Node {
		if e == nil {
			return nil
		}
		return e
	}
	ns := func(s ast.Stmt) ast.Node {
		if s == nil {
			return nil
		}
		return s
	}
	fix := func(list []ast.Stmt) []ast.Stmt {
		var out []ast.Stmt
		for _, st := range list {
			hit := false
			switch x := st.(type) {
			case *ast.AssignStmt, *ast.ExprStmt, *ast.IncDecStmt, *ast.ReturnStmt, *ast.SendStmt, *ast.DeferStmt, *ast.GoStmt:
				hit = mentions(st)
			case *ast.DeclStmt:
				hit = mentions(st)
			case *ast.IfStmt:
				hit = mentions(ns(x.Init), nn(x.Cond))
			case *ast.ForStmt:
				hit = mentions(ns(x.Init), nn(x.Cond), ns(x.Post))
			case *ast.RangeStmt:
				hit = mentions(nn(x.X))
			case *ast.SwitchStmt:
				hit = mentions(ns(x.Init), nn(x.Tag))
			case *ast.TypeSwitchStmt:
				hit = mentions(ns(x.Init), ns(x.Assign))
			}
			if hit {
				rw.rep.PreemptPoints++
				out = append(out, pre(st.Pos()))
			}
			out = append(out, st)
		}
		return out
	}
	ast.Inspect(rw.file, func(n ast.Node) bool {
		switch x := n.(type) {
		case *ast.BlockStmt:
			x.List = fix(x.List)
		case *ast.CaseClause:
			x.Body = fix(x.Body)
		case *ast.CommClause:
			x.Body = fix(x.Body)
		}
		return true
	})
	for _, d := range rw.file.Decls {
		fd, ok := d.(*ast.FuncDecl)
		if !ok || fd.Body == nil {
			continue
		}
		rw.rep.PreemptPoints++
		fd.Body.List = append([]ast.Stmt{pre(fd.Body.Lbrace)}, fd.Body.List...)
	}
}

func (rw *fileRewriter) run(isMain bool) {
	rw.rewriteGoStmts()
	rw.rewritePreempt()
	handled := map[*ast.SelectorExpr]bool{}
	ast.Inspect(rw.file, func(n ast.Node) bool {
		switch x := n.(type) {
		case *ast.RangeStmt:
			if isMapType(rw.info.TypeOf(x.X)) {
				rw.seam("maprange", x.Pos(), "range over "+types.ExprString(x.X)+" : "+rw.info.TypeOf(x.X).String())
				x.X = &ast.CallExpr{Fun: rw.simSel("RangeMap"), Args: []ast.Expr{rw.siteLit(x.Pos()), x.X}}
			}
		case *ast.LabeledStmt:
			if _, ok := x.Stmt.(*ast.GoStmt); ok {
				rw.unseamed(x.Pos(), "labeled go statement (not rewritten)")
			}
		case *ast.SelectStmt:
			ways := 0
			for _, cl := range x.Body.List {
				if cc, ok := cl.(*ast.CommClause); ok && cc.Comm != nil {
					ways++
				}
			}
			if ways >= 2 {
				rw.unseamed(x.Pos(), "select with several communication cases (which ready case wins is the runtime's choice)")
			} else {
				rw.seam("timer", x.Pos(), "select (runs inside the bubble)")
			}
		case *ast.CallExpr:
			fun := x.Fun
			if ix, ok := fun.(*ast.IndexExpr); ok {
				fun = ix.X
			}
			if ix, ok := fun.(*ast.IndexListExpr); ok {
				fun = ix.X
			}
			pkg, name, sel := rw.pkgFunc(fun)
			if sel == nil {
				// method calls that iterate maps reflectively
				if s2, ok := x.Fun.(*ast.SelectorExpr); ok {
					if fn, ok := rw.info.Uses[s2.Sel].(*types.Func); ok && fn.Pkg() != nil {
						full := fn.FullName()
						switch full {
						case "(reflect.Value).MapKeys", "(reflect.Value).MapRange", "(*sync.Map).Range":
							rw.unseamed(x.Pos(), full+" iterates in an order the simulator does not own")
						}
					}
				}
				return true
			}
			switch pkg {
			case "maps", "golang.org/x/exp/maps":
				repl := ""
				switch {
				case pkg == "maps" && name == "Keys":
					repl = "MapKeysOf"
				case pkg == "maps" && name == "Values":
					repl = "MapValuesOf"
				case pkg == "maps" && name == "All":
					repl = "RangeMap"
				case pkg != "maps" && name == "Keys":
					repl = "MapKeysSlice"
				case pkg != "maps" && name == "Values":
					repl = "MapValuesSlice"
				}
				if repl != "" && len(x.Args) == 1 {
					rw.seam("mapfunc", x.Pos(), pkg+"."+name)
					handled[sel] = true
					site := rw.siteLit(x.Pos()) // before the call expression loses its position
					x.Fun = rw.simSel(repl)
					x.Args = []ast.Expr{site, x.Args[0]}
				}
			}
		case *ast.SelectorExpr:
			if handled[x] {
				return true
			}
			pkg, name, sel := rw.pkgFunc(x)
			if sel == nil {
				return true
			}
			repl := ""
			kind := ""
			switch pkg {
			case "time":
				if r, ok := timeMap[name]; ok {
					repl, kind = r, "clock"
				} else if timeUnseamed[name] {
					// timers are owned by the synctest bubble's fake clock
					rw.seam("timer", x.Pos(), "time."+name+" (bubble clock)")
				}
			case "os":
				if r, ok := osMap[name]; ok {
					repl, kind = r, "os"
					if name == "Exit" {
						kind = "exit"
					} else if name == "Getpid" || name == "Getppid" || name == "Hostname" || strings.HasPrefix(name, "Get") && strings.HasSuffix(name, "id") {
						kind = "ident"
					} else if name == "Getenv" || name == "LookupEnv" {
						kind = "env"
					}
				} else if osUnseamed[name] {
					rw.unseamed(x.Pos(), "os."+name+" has no shim")
				}
			case "io/ioutil":
				if r, ok := ioutilMap[name]; ok {
					repl, kind = r, "os"
				} else if name == "ReadDir" {
					rw.unseamed(x.Pos(), "ioutil.ReadDir has no shim")
				}
			case "math/rand":
				if r, ok := randMap[name]; ok {
					repl, kind = r, "rand"
				} else if !randPure[name] {
					rw.unseamed(x.Pos(), "math/rand."+name+" has no shim")
				}
			case "math/rand/v2":
				if r, ok := randV2Map[name]; ok {
					repl, kind = r, "rand"
				} else if !randPure[name] {
					rw.unseamed(x.Pos(), "math/rand/v2."+name+" has no shim")
				}
			case "crypto/rand":
				rw.unseamed(x.Pos(), "crypto/rand."+name+" is not behind a seam")
			case "os/exec", "syscall":
				rw.unseamed(x.Pos(), pkg+"."+name+" bypasses the simulated disk/process model")
			case "runtime":
				switch name {
				case "NumGoroutine", "NumCPU", "GOMAXPROCS", "Stack", "Callers", "Caller":
					// observable, but benign for the properties; not flagged
				}
			}
			if repl != "" {
				rw.seam(kind, x.Pos(), pkg+"."+name)
				x.X = ast.NewIdent(simrtAlias)
				x.Sel = ast.NewIdent(repl)
				rw.useSim = true
				rw.changed = true
			}
		case *ast.FuncDecl:
			if isMain && x.Recv == nil && x.Name.Name == "main" {
				x.Name = ast.NewIdent("verifOrigMain")
				rw.changed = true
			}
		}
		return true
	})
	if rw.changed {
		rw.fixImports()
	}
}

func (rw *fileRewriter) fixImports() {
	// which imported packages are still referenced?
	used := map[string]bool{}
	ast.Inspect(rw.file, func(n ast.Node) bool {
		if id, ok := n.(*ast.Ident); ok {
			if pn, ok := rw.info.Uses[id].(*types.PkgName); ok {
				used[pn.Imported().Path()] = true
			}
		}
		return true
	})
	for _, d := range rw.file.Decls {
		gd, ok := d.(*ast.GenDecl)
		if !ok || gd.Tok != token.IMPORT {
			continue
		}
		var keep []ast.Spec
		for _, sp := range gd.Specs {
			is := sp.(*ast.ImportSpec)
			path, _ := strconv.Unquote(is.Path.Value)
			if path == "C" || (is.Name != nil && (is.Name.Name == "_" || is.Name.Name == ".")) || used[path] {
				keep = append(keep, sp)
				continue
			}
		}
		gd.Specs = keep
	}
	// drop empty import decls
	var decls []ast.Decl
	for _, d := range rw.file.Decls {
		if gd, ok := d.(*ast.GenDecl); ok && gd.Tok == token.IMPORT && len(gd.Specs) == 0 {
			continue
		}
		decls = append(decls, d)
	}
	rw.file.Decls = decls
	// rebuild file.Imports
	rw.file.Imports = nil
	for _, d := range rw.file.Decls {
		if gd, ok := d.(*ast.GenDecl); ok && gd.Tok == token.IMPORT {
			for _, sp := range gd.Specs {
				rw.file.Imports = append(rw.file.Imports, sp.(*ast.ImportSpec))
			}
		}
	}
	if rw.useSim {
		spec := &ast.ImportSpec{Name: ast.NewIdent(simrtAlias), Path: &ast.BasicLit{Kind: token.STRING, Value: strconv.Quote(rw.modPath + "/internal/simrt")}}
		// first declaration, positioned right after the package clause so that
		// go/printer emits it before any comment (an `import "C"` preamble
		// further down keeps its place)
		pos := rw.file.Name.End()
		spec.Name.NamePos = pos
		spec.Path.ValuePos = pos
		gd := &ast.GenDecl{Tok: token.IMPORT, TokPos: pos, Specs: []ast.Spec{spec}}
		rw.file.Decls = append([]ast.Decl{gd}, rw.file.Decls...)
		rw.file.Imports = append(rw.file.Imports, spec)
	}
}

#!/bin/bash
# Sensitivity / silence self-test: every seeded change must be caught by the
# quick check of the property it breaks (exit 1), every behaviour-preserving
# refactor must leave all three quick checks silent (exit 0).
# usage: run_seeded.sh [pattern]      (results also in /tmp/verif-seeded-results.txt)
set -u
V="$(cd "$(dirname "$0")" && pwd)"
PAT="${1:-}"
OUT="${VERIF_SEEDED_OUT:-/tmp/verif-seeded-results.txt}"
: > "$OUT"
"$V/check" warm >/dev/null 2>&1 || true   # make sure bin/check is built, cache warm
jobs=()
for d in "$V"/seeded/*/; do
  id="$(basename "$d")"; [ -n "$PAT" ] && [[ "$id" != *$PAT* ]] && continue
  prop="$(python3 -c "import json;print(json.load(open('$d/meta.json'))['breaks_property'])")"
  want="$(python3 -c "import json;print(json.load(open('$d/meta.json')).get('expected_quick_exit',1))")"
  jobs+=("seeded|$d/patch.diff|$prop|$want")
done
for f in "$V"/selftest/refactors/*.diff; do
  id="$(basename "$f")"; [ -n "$PAT" ] && [[ "$id" != *$PAT* ]] && continue
  jobs+=("refactor|$f|C13 C14 C16|0")
done
# changes written here (not by sub-agents) to prove that a particular dimension bites
for f in "$V"/selftest/*.diff; do
  id="$(basename "$f")"; [ -n "$PAT" ] && [[ "$id" != *$PAT* ]] && continue
  case "$id" in
    preempt-*) prop=C16 ;;
    c14-*) prop=C14 ;;
    c16-*) prop=C16 ;;
    *) prop=C13 ;;
  esac
  jobs+=("selftest|$f|$prop|1")
done
run_one() {
  IFS='|' read -r kind patch props want <<<"$1"
  res="$(VERIF_WORKERS=8 "$V/run_patch.sh" "$patch" $props 2>&1)"
  ok=PASS
  while read -r line; do
    case "$line" in *" exit="*) ;; *) continue ;; esac
    e="$(sed -n 's/.*exit=\([0-9]*\).*/\1/p' <<<"$line")"
    [ "$e" = "$want" ] || ok=FAIL
  done <<<"$res"
  echo "$ok expected_exit=$want $kind :: $res" | tr '\n' ' ' | cut -c1-600
  echo
}
export -f run_one; export V
printf '%s\n' "${jobs[@]}" | xargs -P "${VERIF_SEEDED_PAR:-3}" -I{} bash -c 'run_one "$@"' _ {} | tee -a "$OUT"
echo "== $(grep -c '^PASS' "$OUT") pass, $(grep -c '^FAIL' "$OUT") fail"
grep -q '^FAIL' "$OUT" && exit 1 || exit 0

package main

import (
	"bytes"
	"fmt"
	"os"
	"os/exec"
	"path/filepath"
	"regexp"
	"sort"
	"strings"
	"sync"
	"time"
)

// selftestDeterminism proves that one integer decides everything: for many
// seeds, every check is run several times in separate driver processes under
// different GOMAXPROCS values and worker counts, and the complete event logs
// (choice log + op log + outcome hashes of every world) must be identical.
func selftestDeterminism(seed uint64) int {
	nseeds := envInt("VERIF_ST_SEEDS", 40)
	// harness code must not iterate maps in an order-sensitive way without
	// sorting: a grep gate for the constructs that bit earlier sessions
	if bad := grepGate(); len(bad) > 0 {
		fmt.Println("determinism self-test: order-sensitive constructs in harness code:")
		for _, b := range bad {
			fmt.Println("  ", b)
		}
		return 2
	}
	os.Setenv("VERIF_KEEP", "1")
	sc, err := BuildScratch(false, func(f string, a ...any) { fmt.Fprintf(os.Stderr, f+"\n", a...) })
	if err != nil {
		fmt.Fprintln(os.Stderr, "INFRASTRUCTURE:", err)
		return 2
	}
	defer os.RemoveAll(sc.Dir)
	exe, _ := os.Executable()
	type cfg struct{ gmp, workers int }
	cfgs := []cfg{{1, 1}, {4, 16}, {16, 16}, {16, 16}, {2, 5}}
	small := []string{
		"VERIF_C13_PROGRAMS=30", "VERIF_C13_CLI=3",
		"VERIF_C14_PROGRAMS=25", "VERIF_C14_FULL=0", "VERIF_C14_CLI=2",
		"VERIF_C16_FORMAT=40", "VERIF_C16_HOSTS=1", "VERIF_C16_HOSTLEN=40", "VERIF_C16_COMPILE=3", "VERIF_C16_PREEMPT=60",
		"VERIF_NO_EVIDENCE=1", "VERIF_SCRATCH=" + sc.Dir,
	}
	logDir := filepath.Join(sc.Dir, "eventlogs")
	_ = os.MkdirAll(logDir, 0o755)
	type job struct {
		prop string
		seed uint64
		ci   int
	}
	var jobs []job
	for s := 0; s < nseeds; s++ {
		for _, p := range []string{"C13", "C14", "C16"} {
			for ci := range cfgs {
				jobs = append(jobs, job{p, seed*1000 + uint64(s), ci})
			}
		}
	}
	var mu sync.Mutex
	fail := 0
	infra := 0
	t0 := time.Now()
	_ = ParallelFor(len(jobs), 6, func(i int) error {
		j := jobs[i]
		lp := filepath.Join(logDir, fmt.Sprintf("%s-%d-%d.log", j.prop, j.seed, j.ci))
		cmd := exec.Command(exe, j.prop, "--tier", "quick")
		cmd.Env = append(os.Environ(), small...)
		cmd.Env = append(cmd.Env, fmt.Sprintf("VERIF_SEED=%d", j.seed), fmt.Sprintf("GOMAXPROCS=%d", cfgs[j.ci].gmp), fmt.Sprintf("VERIF_WORKERS=%d", cfgs[j.ci].workers), "VERIF_EVENTLOG="+lp)
		var out bytes.Buffer
		cmd.Stdout = &out
		cmd.Stderr = &out
		err := cmd.Run()
		if err != nil {
			if ee, ok := err.(*exec.ExitError); !ok || ee.ExitCode() == 2 {
				mu.Lock()
				infra++
				fmt.Printf("run %s seed %d cfg %d: infrastructure failure\n%s\n", j.prop, j.seed, j.ci, clip(out.String(), 1500))
				mu.Unlock()
			}
		}
		return nil
	})
	// compare
	worlds := 0
	for s := 0; s < nseeds; s++ {
		for _, p := range []string{"C13", "C14", "C16"} {
			sd := seed*1000 + uint64(s)
			ref, err := os.ReadFile(filepath.Join(logDir, fmt.Sprintf("%s-%d-0.log", p, sd)))
			if err != nil || len(ref) == 0 {
				fmt.Printf("missing event log for %s seed %d\n", p, sd)
				infra++
				continue
			}
			worlds += bytes.Count(ref, []byte("\n"))
			for ci := 1; ci < len(cfgs); ci++ {
				other, err := os.ReadFile(filepath.Join(logDir, fmt.Sprintf("%s-%d-%d.log", p, sd, ci)))
				if err != nil || !bytes.Equal(ref, other) {
					fail++
					fmt.Printf("NONDETERMINISM: %s seed %d: event log under GOMAXPROCS=%d workers=%d differs from GOMAXPROCS=%d workers=%d\n", p, sd, cfgs[ci].gmp, cfgs[ci].workers, cfgs[0].gmp, cfgs[0].workers)
					fmt.Println(firstLogDiff(string(ref), string(other)))
				}
			}
		}
	}
	fmt.Printf("determinism self-test: %d seeds x 3 checks x %d process configurations, %d event-log lines per configuration set, %d mismatches, %d infrastructure failures, %.0fs\n", nseeds, len(cfgs), worlds, fail, infra, time.Since(t0).Seconds())
	if fail > 0 {
		return 1
	}
	if infra > 0 {
		return 2
	}
	return 0
}

func firstLogDiff(a, b string) string {
	la, lb := strings.Split(a, "\n"), strings.Split(b, "\n")
	for i := 0; i < len(la) || i < len(lb); i++ {
		x, y := "", ""
		if i < len(la) {
			x = la[i]
		}
		if i < len(lb) {
			y = lb[i]
		}
		if x != y {
			return fmt.Sprintf("  line %d: %q vs %q", i+1, x, y)
		}
	}
	return "  (no line differs)"
}

// grepGate looks for map iteration in driver code whose result feeds
// scheduling or event logs without being sorted. Heuristic: every `range` over
// an identifier that is declared as a map in the same file must be followed,
// within the function, by a sort or be annotated `// order-insensitive`.
func grepGate() []string {
	var bad []string
	dir := filepath.Join(verifRoot, "cmd", "check")
	files, _ := filepath.Glob(filepath.Join(dir, "*.go"))
	sort.Strings(files)
	re := regexp.MustCompile(`\.Range\(|maps\.Keys\(|maps\.Values\(`)
	for _, f := range files {
		data, err := os.ReadFile(f)
		if err != nil {
			continue
		}
		for i, ln := range strings.Split(string(data), "\n") {
			if re.MatchString(ln) && !strings.Contains(ln, "regexp.MustCompile") && !strings.Contains(ln, "order-insensitive") {
				bad = append(bad, fmt.Sprintf("%s:%d: %s", filepath.Base(f), i+1, strings.TrimSpace(ln)))
			}
		}
	}
	return bad
}

// selftestSensitivity runs the checks against the deliberately broken trees
// under /verif/seeded and /verif/selftest (see run_seeded.sh); kept in the
// driver only as a pointer.
func selftestSensitivity(seed uint64) int {
	fmt.Println("use ./run_seeded.sh (applies every seeded/*/patch.diff and selftest/refactors/*.diff to a scratch copy of /repo and runs the relevant quick check)")
	return 0
}

package main

import "fmt"

func selftestDeterminism(seed uint64) int {
	fmt.Println("not yet implemented")
	return 2
}

func selftestSensitivity(seed uint64) int {
	fmt.Println("not yet implemented")
	return 2
}

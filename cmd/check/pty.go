package main

import (
	"fmt"
	"os"
	"syscall"
	"unsafe"
)

// openPty opens a pseudo terminal pair with the slave in raw mode (no output
// post-processing, so what the program writes is what the master reads).
func openPty() (master, slave *os.File, err error) {
	m, err := os.OpenFile("/dev/ptmx", os.O_RDWR|syscall.O_NOCTTY, 0)
	if err != nil {
		return nil, nil, err
	}
	var unlock int32
	if _, _, e := syscall.Syscall(syscall.SYS_IOCTL, m.Fd(), syscall.TIOCSPTLCK, uintptr(unsafe.Pointer(&unlock))); e != 0 {
		m.Close()
		return nil, nil, e
	}
	var n uint32
	if _, _, e := syscall.Syscall(syscall.SYS_IOCTL, m.Fd(), syscall.TIOCGPTN, uintptr(unsafe.Pointer(&n))); e != 0 {
		m.Close()
		return nil, nil, e
	}
	s, err := os.OpenFile(fmt.Sprintf("/dev/pts/%d", n), os.O_RDWR|syscall.O_NOCTTY, 0)
	if err != nil {
		m.Close()
		return nil, nil, err
	}
	var t syscall.Termios
	if _, _, e := syscall.Syscall(syscall.SYS_IOCTL, s.Fd(), syscall.TCGETS, uintptr(unsafe.Pointer(&t))); e != 0 {
		m.Close()
		s.Close()
		return nil, nil, e
	}
	t.Oflag &^= syscall.OPOST
	t.Lflag &^= syscall.ECHO | syscall.ICANON | syscall.ISIG
	if _, _, e := syscall.Syscall(syscall.SYS_IOCTL, s.Fd(), syscall.TCSETS, uintptr(unsafe.Pointer(&t))); e != 0 {
		m.Close()
		s.Close()
		return nil, nil, e
	}
	return m, s, nil
}

package main

import (
	"fmt"
	"sort"
	"strings"
)

// C13 — compilation is deterministic (DESIGN.md section 3).
//
// World: parse P, run the six generators in the CLI's order on the shared
// model. Schedules vary map iteration order, the clock and process identity;
// the oracle is files(P,Si) == files(P,S0) per target.

func stepSig(st *Step) string {
	var b strings.Builder
	if st.Panic != "" {
		b.WriteString("PANIC:" + st.Panic + "|")
	}
	if st.Err != "" {
		b.WriteString("ERR:" + st.Err + "|")
	}
	names := make([]string, 0, len(st.Files))
	for n := range st.Files {
		names = append(names, n)
	}
	sort.Strings(names)
	for _, n := range names {
		b.WriteString(n + ":" + st.Files[n].Sha + "|")
	}
	return b.String()
}

// validity describes how far a world got before generation.
func validity(r *Resp) string {
	switch {
	case r.TimedOut:
		return "TIMEOUT"
	case r.Crashed != "":
		return "CRASH:" + r.Crashed
	case r.ParsePanic != "":
		return "PARSEPANIC:" + r.ParsePanic
	case r.ParseErr != "":
		return "PARSEERR:" + r.ParseErr
	case len(r.SemErrs) > 0:
		return "SEMERR:" + strings.Join(r.SemErrs, ";")
	}
	return "OK"
}

// respSig is the complete outcome signature of a library-level world.
func respSig(r *Resp) string {
	s := validity(r) + "@" + r.FP0
	for i := range r.Steps {
		s += "#" + r.Steps[i].Target + "=" + stepSig(&r.Steps[i]) + "~" + r.Steps[i].FP
	}
	return s
}

func stepByTarget(r *Resp, t string) *Step {
	for i := range r.Steps {
		if r.Steps[i].Target == t {
			return &r.Steps[i]
		}
	}
	return nil
}

// diffTargets lists targets whose outcome differs between two worlds of the
// same program ("*" = the worlds did not even agree on validity).
func diffTargets(a, b *Resp) []string {
	if validity(a) != validity(b) {
		return []string{"*"}
	}
	var out []string
	for _, t := range AllTargets {
		sa, sb := stepByTarget(a, t), stepByTarget(b, t)
		if (sa == nil) != (sb == nil) {
			out = append(out, t)
			continue
		}
		if sa != nil && stepSig(sa) != stepSig(sb) {
			out = append(out, t)
		}
	}
	return out
}

// bubbleOn is set when the tree contains `go` statements: every world then
// runs inside a synctest bubble with the goroutine scheduling seam active.
var bubbleOn bool

// uncontrolled counts statically found nondeterminism sources without a seam.
var uncontrolled int

func s0() SchedConfig {
	c := SchedConfig{Seed: 1, MapMode: "sorted", ClockMode: "pinned", ClockBase: DefaultClockBase, IdentMode: "pinned"}
	if bubbleOn {
		c.Bubble, c.GoMode = true, "fifo"
	}
	return c
}

type c13Sched struct {
	name string
	cfg  SchedConfig
	gmp  int // index of the process pool it runs in
}

func c13Schedules(seed uint64, r0 *Resp, thorough bool) []c13Sched {
	base := s0()
	mk := func(name string, f func(c *SchedConfig), i int) c13Sched {
		c := base
		c.Seed = SubSeed(seed, name, i)
		f(&c)
		return c13Sched{name: name, cfg: c}
	}
	var out []c13Sched
	out = append(out, mk("reverse", func(c *SchedConfig) { c.MapMode = "reverse" }, 0))
	out = append(out, mk("rotate", func(c *SchedConfig) { c.MapMode = "rotate" }, 0))
	nr := 2
	if thorough {
		nr = 4
	}
	for i := 0; i < nr; i++ {
		mode := "random"
		if i%2 == 1 {
			mode = "mix"
		}
		out = append(out, mk(mode, func(c *SchedConfig) { c.MapMode = mode }, i))
	}
	// exactly one static site perturbed: pins the culprit directly
	var sites []string
	for s, st := range r0.Rec.Sites {
		if st.Execs2 > 0 {
			sites = append(sites, s)
		}
	}
	sort.Strings(sites)
	maxSites := 4
	if thorough {
		maxSites = len(sites)
	}
	if len(sites) > maxSites {
		// rotate which sites get the flip by seed so that all are covered across programs
		off := int(seed % uint64(len(sites)))
		sites = append(sites[off:], sites[:off]...)[:maxSites]
	}
	for i, s := range sites {
		site := s
		out = append(out, mk("onesite", func(c *SchedConfig) { c.MapMode = "onesite"; c.OneSite = site; c.OneSiteMode = "reverse" }, i))
	}
	// clock and identity, maps sorted
	out = append(out, mk("clock-yearstraddle", func(c *SchedConfig) { c.ClockMode = "yearstraddle" }, 0))
	out = append(out, mk("clock-mix", func(c *SchedConfig) { c.ClockMode = "mix" }, 0))
	if thorough {
		out = append(out, mk("clock-skew", func(c *SchedConfig) { c.ClockMode = "skew" }, 0))
		out = append(out, mk("clock-advance", func(c *SchedConfig) { c.ClockMode = "advance" }, 0))
	}
	out = append(out, mk("ident-vary", func(c *SchedConfig) { c.IdentMode = "vary" }, 0))
	out = append(out, mk("env-vary", func(c *SchedConfig) { c.EnvMode = "vary" }, 0))
	if bubbleOn {
		// goroutine interleavings, everything else pinned
		out = append(out, mk("go-lifo", func(c *SchedConfig) { c.GoMode = "lifo" }, 0))
		for i := 0; i < 3; i++ {
			out = append(out, mk("go-random", func(c *SchedConfig) { c.GoMode = "random" }, i))
		}
		// ... and preempted inside their bodies (function entries, statements
		// touching package-level variables), densely and sparsely
		out = append(out, mk("go-preempt", func(c *SchedConfig) { c.GoMode, c.PreemptEvery = "random", 3 }, 0))
		out = append(out, mk("go-preempt", func(c *SchedConfig) { c.GoMode, c.PreemptEvery = "random", 40 }, 1))
	}
	// everything at once
	out = append(out, mk("all-mix", func(c *SchedConfig) {
		c.MapMode, c.ClockMode, c.IdentMode, c.EnvMode = "mix", "mix", "vary", "vary"
		if bubbleOn {
			c.GoMode = "mix"
		}
	}, 0))
	for i := range out {
		out[i].gmp = i % 3
	}
	return out
}

type c13State struct {
	c     *Ctx
	pools [5]*Pool // GOMAXPROCS 1, 4, 16, 2, 3
}

func runC13(c *Ctx) error {
	thorough := c.Tier == "thorough"
	nprog := envInt("VERIF_C13_PROGRAMS", 900)
	ncli := envInt("VERIF_C13_CLI", 60)
	nfid := 0
	if thorough {
		nprog = envInt("VERIF_C13_PROGRAMS", 60000)
		ncli = envInt("VERIF_C13_CLI", 1500)
		nfid = envInt("VERIF_C13_FIDELITY", 200)
	}
	st := &c13State{c: c}
	st.pools[0] = NewPool(c.sc.Worker, max(2, c.Workers*3/8), 1)
	st.pools[1] = NewPool(c.sc.Worker, max(1, c.Workers/4), 4)
	st.pools[2] = NewPool(c.sc.Worker, max(1, c.Workers/4), 16)
	st.pools[3] = NewPool(c.sc.Worker, max(1, c.Workers/8), 2)
	st.pools[4] = NewPool(c.sc.Worker, max(1, c.Workers/8), 3)
	defer func() {
		for _, p := range st.pools {
			p.Close()
		}
	}()
	c.ncases = nprog
	c.logf("library level: %d programs", nprog)
	err := ParallelFor(nprog, c.Workers+4, func(i int) error { return st.program(i, thorough) })
	if err != nil {
		return err
	}
	c.logf("CLI level: %d programs", ncli)
	if err := c13CLI(c, ncli); err != nil {
		return err
	}
	if nfid > 0 {
		c.logf("fidelity: %d programs against the unrewritten binary", nfid)
		if err := c13Fidelity(c, nfid); err != nil {
			return err
		}
	}
	return nil
}

func (st *c13State) program(i int, thorough bool) error {
	c := st.c
	seed := SubSeed(c.Seed, "c13", i)
	prog := GenProg(seed)
	if i%128 == 13 {
		// a protocol with hundreds of small messages: counters, epochs and
		// caches inside a generator wrap or fill up only then
		prog = GenProgHuge(seed)
		c.ev.Fire("huge_program", 1)
	}
	if i%32 == 31 {
		// a program the compiler rejects (unknown or ill-valued option): the
		// verdict and its message must not depend on the schedule either; this
		// is what reaches the map range in model.AddOption
		prog.NoOptBlock = false
		if i%64 == 31 {
			prog.Opts = append(prog.Opts, Opt{"NoSuchOption", "1"})
		} else {
			prog.Opts = append(prog.Opts, Opt{"LittleEndian", "maybe"})
		}
		c.ev.Fire("rejected_program", 1)
	}
	text := prog.Render()
	req := &Req{ID: i, Op: "gen", DSL: []byte(text), History: AllTargets, Sched: s0()}
	r0, err := st.pools[0].Do(req)
	if err != nil {
		return err
	}
	c.ev.AddRecord(&r0.Rec)
	c.noteUnseamed(r0)
	c.event(fmt.Sprintf("c13|%d|ref", i), text, r0.Rec.Choices, respSig(r0))
	v0 := validity(r0)
	c.ev.Count("programs", 1)
	if v0 != "OK" {
		c.ev.Count("programs_rejected_or_crashing:"+strings.SplitN(v0, ":", 2)[0], 1)
		if v0 == "TIMEOUT" {
			c.mu.Lock()
			c.inconclusive++
			c.mu.Unlock()
			return nil
		}
	}
	ps := prog.Stats()
	if ps.MaxMatchKeys >= 2 {
		c.ev.Count("programs_with_ge2_match_key_fields_in_a_packet", 1)
	}
	if ps.NameCollision {
		c.ev.Count("programs_with_colliding_file_names", 1)
	}
	if ps.Packets >= 2 {
		c.ev.Count("programs_with_ge2_packets", 1)
	}
	for _, s := range r0.Steps {
		if s.Panic != "" {
			c.ev.Count("generator_panics_in_reference:"+s.Target, 1)
		}
	}
	scheds := c13Schedules(seed, r0, thorough)
	// the pure process dimension: the reference schedule again, in other processes
	scheds = append(scheds, c13Sched{name: "same-schedule-other-process", cfg: s0(), gmp: 1}, c13Sched{name: "same-schedule-other-process", cfg: s0(), gmp: 2},
		c13Sched{name: "same-schedule-other-process", cfg: s0(), gmp: 3}, c13Sched{name: "same-schedule-other-process", cfg: s0(), gmp: 4})
	if uncontrolled > 0 {
		for k := 0; k < 6; k++ {
			scheds = append(scheds, c13Sched{name: "same-schedule-other-process", cfg: s0(), gmp: k % 3})
		}
	}
	// garbage-collector pacing: the reference schedule in a fresh process whose
	// collector never runs during a compilation (pooled and weakly held
	// objects, finalizers and cleanups are never reclaimed) and in one whose
	// collector runs all the time
	gcN, gcC := s0(), s0()
	gcN.ProcEnv = []string{"GOGC=off", "GOMEMLIMIT=3GiB"}
	gcC.ProcEnv = []string{"GOGC=1"}
	scheds = append(scheds, c13Sched{name: "gc-never", cfg: gcN}, c13Sched{name: "gc-constantly", cfg: gcC})
	var r0b *Resp
	for si, sd := range scheds {
		rq := *req
		rq.Sched = sd.cfg
		var ri *Resp
		var err error
		if len(sd.cfg.ProcEnv) > 0 {
			ri, err = DoFresh(c.sc.Worker, &rq, 0)
			c.ev.Fire("process_gc_pacing_"+sd.name, 1)
		} else {
			ri, err = st.pools[sd.gmp].Do(&rq)
		}
		if err != nil {
			return err
		}
		c.ev.AddRecord(&ri.Rec)
		c.noteUnseamed(ri)
		c.event(fmt.Sprintf("c13|%d|%02d|%s", i, si, sd.name), ri.Rec.Choices, respSig(ri))
		if ri.TimedOut {
			c.mu.Lock()
			c.inconclusive++
			c.mu.Unlock()
			continue
		}
		if sig, non := choiceSig(ri.Rec.Choices); non {
			c.ev.MarkDistinct(fmt.Sprintf("%x|%s", seed, sig))
		}
		if i < 3 && sd.name == "mix" {
			c.ev.AddSample(map[string]any{"program": text, "schedule": sd.name, "choices": ri.Rec.Choices, "history": AllTargets}, 3)
		}
		for _, t := range diffTargets(r0, ri) {
			if t != "*" {
				// cheap classification against the known-findings file before
				// the (serialised) confirmation and minimisation
				if r0b == nil {
					rq0 := *req
					rq0.WantBytes = true
					if r0b, err = st.pools[0].Do(&rq0); err != nil {
						return err
					}
				}
				rqb := rq
				rqb.WantBytes = true
				var rib *Resp
				if len(sd.cfg.ProcEnv) > 0 {
					rib, err = DoFresh(c.sc.Worker, &rqb, 0)
				} else {
					rib, err = st.pools[sd.gmp].Do(&rqb)
				}
				if err != nil {
					return err
				}
				if sa, sb := stepByTarget(r0b, t), stepByTarget(rib, t); sa != nil && sb != nil {
					_, _, _, _, diffs := firstFileDiff(sa, sb)
					if kf := c.known.Match("C13", "C13|lib|"+t, diffs); kf != nil {
						c.knownHit(kf)
						continue
					}
				}
			}
			c.candidate13(i, prog, sd, t)
		}
	}
	return nil
}

func (c *Ctx) noteUnseamed(r *Resp) {
	if len(r.Rec.Unseamed) == 0 {
		return
	}
	c.mu.Lock()
	for _, u := range r.Rec.Unseamed {
		c.unseamed[u] = true
	}
	c.mu.Unlock()
}

// candidate13 confirms, minimises and reports one C13 candidate. Serialised:
// candidates are rare on a healthy tree.
var candMu = make(chan struct{}, 1)

func (c *Ctx) candidate13(caseIdx int, prog *Prog, sd c13Sched, target string) {
	c.mu.Lock()
	c.candidates++
	coarse := "C13|" + target + "|" + sd.name + "|" + sd.cfg.OneSite
	if c.sigSeen["coarse:"+coarse] || c.processed >= 40 {
		c.mu.Unlock()
		return
	}
	c.mu.Unlock()
	candMu <- struct{}{}
	defer func() { <-candMu }()
	c.mu.Lock()
	if c.sigSeen["coarse:"+coarse] {
		c.mu.Unlock()
		return
	}
	c.mu.Unlock()

	class := "C13|lib|" + target
	// fails: does the program still show a difference on this target that is
	// not a listed known finding?
	fails := func(p *Prog, cfg SchedConfig) (bool, *Resp, *Resp) {
		text := p.Render()
		a, err := DoFresh(c.sc.Worker, &Req{Op: "gen", DSL: []byte(text), History: AllTargets, Sched: s0(), WantBytes: true}, 1)
		if err != nil || a.TimedOut {
			return false, nil, nil
		}
		if target != "*" && validity(a) != "OK" {
			return false, nil, nil
		}
		b, err := DoFresh(c.sc.Worker, &Req{Op: "gen", DSL: []byte(text), History: AllTargets, Sched: cfg, WantBytes: true}, 1)
		if err != nil || b.TimedOut {
			return false, nil, nil
		}
		for _, t := range diffTargets(a, b) {
			if t == target {
				if t != "*" {
					_, _, _, _, diffs := firstFileDiff(stepByTarget(a, t), stepByTarget(b, t))
					if kf := c.known.Match("C13", class, diffs); kf != nil {
						c.knownHit(kf)
						return false, a, b
					}
				}
				return true, a, b
			}
		}
		return false, a, b
	}
	// 1. confirm alone, in fresh processes
	hitsBefore := c.knownTotal()
	ok, _, rb := fails(prog, sd.cfg)
	if !ok {
		if c.knownTotal() > hitsBefore {
			return // it is a listed known finding
		}
		// not reproducible from one cold pair: process state left by an earlier
		// compilation, or something of the process itself (each schedule runs in
		// a worker pool with its own GOMAXPROCS), or run-to-run variation
		c.ev.Count("candidates_not_reproducible_from_a_cold_process", 1)
		c.mu.Lock()
		tries := c.warmTries
		c.warmTries++
		c.mu.Unlock()
		if tries >= 8 {
			c.ev.Count("unconfirmed_candidates", 1)
			return // the expensive explanations were tried often enough in this run
		}
		if !c.warmSearch("c13", caseIdx, c.ncases, prog, AllTargets, target) {
			if !c.confirmUnseamed(caseIdx, prog, target) {
				c.logf("candidate (case %d, %s, %s) reproduced neither in a fresh process, nor in a warm session, nor across 12 fresh processes under GOMAXPROCS 1/4/16: not reported", caseIdx, sd.name, target)
				c.ev.Count("unconfirmed_candidates", 1)
			}
		}
		return
	}
	// does the reference schedule already disagree with itself in two fresh
	// processes? then no schedule is to blame: a source outside every seam
	self := false
	for k := 0; k < 4 && !self; k++ {
		self, _, _ = fails(prog, s0())
	}
	if self {
		c.mu.Lock()
		c.sigSeen["coarse:"+coarse] = true
		c.processed++
		c.mu.Unlock()
		c.confirmUnseamed(caseIdx, prog, target)
		return
	}
	c.mu.Lock()
	c.sigSeen["coarse:"+coarse] = true
	c.processed++
	c.mu.Unlock()
	origSize := map[string]any{"packets": len(prog.Pkts), "fields": prog.fieldCount(), "choices": len(rb.Rec.Choices), "nonzero_choices": nonzero(rb.Rec.Choices)}
	// 2. shrink the program under mode-based schedules
	alts := []SchedConfig{sd.cfg}
	for _, ch := range rb.Rec.Choices {
		if ch.Kind == "mapperm" && ch.Chosen != 0 {
			a := s0()
			a.MapMode, a.OneSite, a.OneSiteMode = "onesite", ch.Site, "reverse"
			dup := false
			for _, x := range alts {
				if x.OneSite == a.OneSite && x.MapMode == "onesite" {
					dup = true
				}
			}
			if !dup && len(alts) < 6 {
				alts = append(alts, a)
			}
		}
	}
	pred := func(p *Prog) bool {
		for _, cfg := range alts {
			if ok, _, _ := fails(p, cfg); ok {
				return true
			}
		}
		return false
	}
	small, used := ShrinkProg(prog, pred, 250)
	// 3. pick a failing schedule for the small program and shrink its choices
	var cfg SchedConfig
	var ra, rbb *Resp
	for _, a := range alts {
		if ok, x, y := fails(small, a); ok {
			cfg, ra, rbb = a, x, y
			break
		}
	}
	if rbb == nil {
		small = prog
		cfg = sd.cfg
		_, ra, rbb = fails(prog, cfg)
		if rbb == nil {
			return
		}
	}
	choices := append([]Choice(nil), rbb.Rec.Choices...)
	replayCfg := func(cs []Choice) SchedConfig {
		r := s0()
		r.UseReplay = true
		r.Replay = cs
		return r
	}
	if ok, _, _ := fails(small, replayCfg(choices)); ok {
		for i := range choices {
			if choices[i].Chosen == 0 {
				continue
			}
			saved := choices[i].Chosen
			choices[i].Chosen = 0
			if ok, _, _ := fails(small, replayCfg(choices)); !ok {
				choices[i].Chosen = saved
			}
		}
		// drop the trailing all-zero tail: exhausted choices default to 0
		end := len(choices)
		for end > 0 && choices[end-1].Chosen == 0 {
			end--
		}
		choices = choices[:end]
		cfg = replayCfg(choices)
		if ok, x, y := fails(small, cfg); ok {
			ra, rbb = x, y
		}
	}
	// 4. classify
	kinds := map[string]bool{}
	sites := map[string]bool{}
	for _, ch := range rbb.Rec.Choices {
		if ch.Chosen != 0 {
			kinds[ch.Kind] = true
			if ch.Site != "" {
				sites[ch.Site] = true
			}
		}
	}
	sig := "C13|lib|" + target + "|" + strings.Join(sortedKeys(kinds), "+") + "|" + strings.Join(sortedKeys(sites), ",")
	var file, l0, l1 string
	var line int
	var diffs []string
	if target != "*" {
		sa, sb := stepByTarget(ra, target), stepByTarget(rbb, target)
		file, line, l0, l1, diffs = firstFileDiff(sa, sb)
	}
	summary := fmt.Sprintf("target %s: %s differs at line %d between the sorted/pinned schedule and a schedule perturbing %s at %s: %q vs %q", target, file, line, strings.Join(sortedKeys(kinds), "+"), strings.Join(sortedKeys(sites), ","), clip(l0, 120), clip(l1, 120))
	if len(kinds) == 0 && target != "*" {
		summary = fmt.Sprintf("target %s: %s differs at line %d between two fresh processes given the IDENTICAL schedule, input and flags (something of the process itself — its working directory, identity or environment — reaches the output): %q vs %q", target, file, line, clip(l0, 120), clip(l1, 120))
	}
	if target == "*" {
		summary = fmt.Sprintf("the compiler's verdict itself depends on the schedule: %q vs %q", clip(validity(ra), 160), clip(validity(rbb), 160))
	}
	rs := s0()
	rf := &ReplayFile{Property: "C13", Kind: "lib-c13", RunSeed: c.Seed, Case: caseIdx, DSL: small.Render(), History: AllTargets, Sched: &cfg, RefSched: &rs, Target: target,
		Expect:    map[string]any{"file": file, "line": line, "ref_line": l0, "got_line": l1},
		Original:  origSize,
		Minimised: map[string]any{"packets": len(small.Pkts), "fields": small.fieldCount(), "choices": len(cfg.Replay), "nonzero_choices": nonzero(cfg.Replay), "shrink_evaluations": used}}
	c.report(sig, summary, diffs, rf)
}

// confirmUnseamed handles "identical schedule, different process, different
// output": run the reference schedule in several fresh processes.
func (c *Ctx) confirmUnseamed(caseIdx int, prog *Prog, target string) bool {
	text := prog.Render()
	sigs := map[string]int{}
	var first, other *Resp
	for k := 0; k < 15; k++ {
		r, err := DoFresh(c.sc.Worker, &Req{Op: "gen", DSL: []byte(text), History: AllTargets, Sched: s0(), WantBytes: true}, []int{1, 4, 16, 2, 3}[k%5])
		if err != nil || r.TimedOut {
			continue
		}
		s := validity(r)
		for i := range r.Steps {
			s += "#" + stepSig(&r.Steps[i])
		}
		sigs[s]++
		if first == nil {
			first = r
		} else if other == nil && len(diffTargets(first, r)) > 0 {
			other = r
		}
	}
	if len(sigs) < 2 || other == nil {
		return false
	}
	ts := diffTargets(first, other)
	file, line, l0, l1, diffs := "", 0, "", "", []string(nil)
	if ts[0] != "*" {
		file, line, l0, l1, diffs = firstFileDiff(stepByTarget(first, ts[0]), stepByTarget(other, ts[0]))
	}
	sig := "C13|lib|" + ts[0] + "|unseamed|"
	rs := s0()
	rf := &ReplayFile{Property: "C13", Kind: "lib-c13-unseamed", RunSeed: c.Seed, Case: caseIdx, DSL: text, History: AllTargets, Sched: &rs, RefSched: &rs, Target: ts[0],
		Expect: map[string]any{"file": file, "line": line, "ref_line": l0, "got_line": l1, "distinct_outputs_in_15_fresh_processes": len(sigs)}}
	c.report(sig, fmt.Sprintf("target %s: %s differs between fresh processes running the IDENTICAL schedule (a nondeterminism source outside every seam; replays as \"varies between processes\"): line %d %q vs %q", ts[0], file, line, clip(l0, 120), clip(l1, 120)), diffs, rf)
	return true
}

func firstFileDiff(sa, sb *Step) (file string, line int, l0, l1 string, diffs []string) {
	if sa == nil || sb == nil {
		return "(step missing)", 0, "", "", nil
	}
	if sa.Panic != sb.Panic || sa.Err != sb.Err {
		return "(outcome)", 0, sa.Panic + sa.Err, sb.Panic + sb.Err, []string{sa.Panic + sa.Err, sb.Panic + sb.Err}
	}
	names := map[string]bool{}
	for n := range sa.Files {
		names[n] = true
	}
	for n := range sb.Files {
		names[n] = true
	}
	for _, n := range sortedKeys(names) {
		fa, oka := sa.Files[n]
		fb, okb := sb.Files[n]
		if oka != okb {
			if file == "" {
				file, l0, l1 = n, fmt.Sprint("present=", oka), fmt.Sprint("present=", okb)
			}
			diffs = append(diffs, "file set differs: "+n)
			continue
		}
		if fa.Sha != fb.Sha {
			ln, x, y := firstDiffLine(fa.Data, fb.Data)
			if file == "" {
				file, line, l0, l1 = n, ln, x, y
			}
			diffs = append(diffs, allDiffLines(fa.Data, fb.Data)...)
		}
	}
	return
}

func nonzero(cs []Choice) int {
	n := 0
	for _, c := range cs {
		if c.Chosen != 0 {
			n++
		}
	}
	return n
}

func sortedKeys(m map[string]bool) []string {
	out := make([]string, 0, len(m))
	for k := range m {
		out = append(out, k)
	}
	sort.Strings(out)
	return out
}

const c13Rule = "Seeded generation of well-formed PacketDSL programs (biased to >=2 packets, >=2 match fields over different key fields in one packet, cross-packet references, file names colliding after case conversion); per program one reference world (every map iteration in sorted key order, clock pinned, process identity pinned) and k perturbed worlds: all-reverse, rotation, uniform random and mixed permutations per dynamic map-iteration instance, exactly-one-static-site-reversed schedules, clock schedules (advance, year-boundary straddle, backwards skew), varied process identity, all at once, the identical schedule in other OS processes under GOMAXPROCS 1/4/16/2/3 and in fresh processes with GOGC=off and GOGC=1; every 128th program has 130-290 packets; library level (many worlds per worker process) plus CLI level (one OS process per world; there also stale output, varied environment, /dev/full, one transient I/O error, and a machine stall of 2 s .. 2 days on the bubble clock before one file operation: a faulted run that exits 0 must have written the reference tree). A case counts as distinct and non-trivial when its choice log contains at least one non-identity decision applied to a choice space of size >= 2, keyed by (program, non-identity decisions)."

var c13Assumptions = []string{
	"map iteration inside third-party modules (antlr4-go, cobra, strcase, std) is not behind a seam; the thorough tier cross-checks the unrewritten binary in fresh processes",
	"process identity other than pid, math/rand top-level functions and temp-file names (ASLR, pointer values) is covered only by executing schedules in several OS processes",
	"any iteration order is a legal behaviour of range-over-map under the Go specification, so a perturbed schedule cannot create behaviours real executions lack",
	"the simulated clock returns UTC times",
}

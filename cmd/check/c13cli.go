package main

import (
	"fmt"
	"os"
	"sort"
	"strings"
)

// CLI level of C13: the whole command (argument rewriting, cobra, the compile
// wrapper, WriteCodeToFile) as one OS process per world; the outcome is the
// sandbox tree.

var targetDir = map[string]string{"lua": "out/lua", "rust": "out/rust", "go": "out/go", "java": "out/java", "python": "out/py", "cpp": "out/cpp",
	// pseudo target of the shared-directory layout: every requested target writes into out/all
	"shared": "out/all"}

func compileArgv(targets []string, long bool, subcommand bool, abs bool) []string {
	var argv []string
	if subcommand {
		argv = append(argv, "compile")
	}
	// the DSL path is always given relative ("in.dsl", as in the library-level
	// worlds); only the output directories may be absolute
	in := "in.dsl"
	if long {
		argv = append(argv, "--file", in)
	} else {
		argv = append(argv, "-f", in)
	}
	for _, t := range targets {
		d := targetDir[t]
		if abs {
			d = "{SB}/" + d
		}
		if long {
			argv = append(argv, TargetFlagLong[t], d)
		} else {
			argv = append(argv, TargetFlagShort[t], d)
		}
	}
	return argv
}

// compileArgvDirs is compileArgv with an explicit output directory per target.
// mixAbs makes compileArgvDirs spell every other output directory absolute.
var mixAbsKey = "\x00mix"

func compileArgvDirs(targets []string, dirs map[string]string, long bool, subcommand bool, abs bool) []string {
	argv := compileArgv(nil, long, subcommand, abs)
	_, mix := dirs[mixAbsKey]
	for k, t := range targets {
		d := dirs[t]
		if abs != (mix && k%2 == 1) {
			d = "{SB}/" + d
		}
		if long {
			argv = append(argv, TargetFlagLong[t], d)
		} else {
			argv = append(argv, TargetFlagShort[t], d)
		}
	}
	return argv
}

// layoutDirs maps targets to output directories for the non-default layouts.
func layoutDirs(layout string, ts []string) map[string]string {
	dirs := map[string]string{}
	if strings.HasSuffix(layout, "+mixed-abs") {
		layout = strings.TrimSuffix(layout, "+mixed-abs")
		dirs[mixAbsKey] = ""
	}
	for k, t := range ts {
		switch layout {
		case "shared-root":
			dirs[t] = "out/all"
		case "nested-roots":
			// each root lives inside the previous one, under a name generators also use
			if k == 0 {
				dirs[t] = "out/n"
			} else {
				dirs[t] = dirs[ts[k-1]] + "/" + []string{"test", "include", "main", "src", "gen"}[k%5]
			}
		case "nested-reverse":
			// the LATER target's root is the parent, earlier targets write below it
			// under names build tools give meaning to; filled in after the loop
		case "prefix-siblings":
			// names that are string prefixes of one another, longer on the earlier target
			dirs[t] = "gen" + strings.Repeat("_x", len(ts)-1-k)
		default:
			dirs[t] = targetDir[t]
		}
	}
	if layout == "nested-reverse" {
		conv := []string{"src/main", "rust", "src/test", "target/generated", "build", "include", "test", "main/java", "pkg"}
		dirs[ts[len(ts)-1]] = "proj"
		for k := len(ts) - 2; k >= 0; k-- {
			dirs[ts[k]] = dirs[ts[k+1]] + "/" + conv[(len(ts)-2-k)%len(conv)]
		}
	}
	return dirs
}

// layoutDiff: are the files target victim writes when requested alone all
// present, byte for byte, under its directory in the combined run? Paths that
// another requested target also writes are skipped (last writer wins there).
func layoutDiff(alone map[string]*CLIOutcome, o *CLIOutcome, dirs map[string]string, ts []string, victim string) []string {
	other := map[string]bool{}
	for _, u := range ts {
		if u == victim || alone[u] == nil {
			continue
		}
		for n := range alone[u].subtree(targetDir[u]) {
			other[dirs[u]+"/"+n] = true
		}
	}
	var diffs []string
	sa := alone[victim].subtree(targetDir[victim])
	names := map[string]bool{}
	for n := range sa {
		names[n] = true
	}
	for _, n := range sortedKeys(names) {
		p := dirs[victim] + "/" + n
		if other[p] {
			continue
		}
		e, ok := o.After[p]
		if !ok || e.Kind != "file" {
			diffs = append(diffs, "file missing: "+p)
		} else if e.Sha != sa[n].Sha {
			diffs = append(diffs, allDiffLines(sa[n].Data, e.Data)...)
		}
	}
	return diffs
}

func treeSig(o *CLIOutcome, prefix string) string {
	var ps []string
	for p, e := range o.After {
		if strings.HasPrefix(p, prefix) {
			ps = append(ps, p+":"+e.Kind+":"+e.Sha)
		}
	}
	sort.Strings(ps)
	return fmt.Sprintf("exit=%d|%s", o.Exit, strings.Join(ps, "|"))
}

// opSig renders the op log of a CLI world.
func opSig(o *CLIOutcome) string {
	var b strings.Builder
	for _, op := range o.Rec.Ops {
		fmt.Fprintf(&b, "%s:%s:%s:%v:%v:%s;", op.Op, op.Path, op.Path2, op.Write, op.Escaped, op.Fault)
	}
	return b.String()
}

// cliDiff compares the output subtrees of two outcomes per target.
func cliDiff(a, b *CLIOutcome) (targets []string, diffs map[string][]string) {
	diffs = map[string][]string{}
	if a.Exit != b.Exit {
		return []string{"*"}, diffs
	}
	for _, t := range append(append([]string{}, AllTargets...), "shared") {
		sa, sb := a.subtree(targetDir[t]), b.subtree(targetDir[t])
		names := map[string]bool{}
		for n := range sa {
			names[n] = true
		}
		for n := range sb {
			names[n] = true
		}
		differs := false
		for _, n := range sortedKeys(names) {
			ea, oka := sa[n]
			eb, okb := sb[n]
			if oka != okb {
				differs = true
				diffs[t] = append(diffs[t], "file set differs: "+n)
			} else if ea.Sha != eb.Sha {
				differs = true
				diffs[t] = append(diffs[t], allDiffLines(ea.Data, eb.Data)...)
			}
		}
		if differs {
			targets = append(targets, t)
		}
	}
	return
}

// staleVariant derives stale content from what the generator will write:
// longer, same length with a differing tail / head / middle, or shorter.
func staleVariant(data []byte, variant int) []byte {
	flip := func(b []byte, i int) {
		if i >= 0 && i < len(b) {
			if b[i] == 'x' {
				b[i] = 'y'
			} else {
				b[i] = 'x'
			}
		}
	}
	switch variant % 5 {
	case 0:
		return append(append([]byte("STALE STALE STALE\n"), data...), []byte("\ntrailing stale bytes that must disappear\n")...)
	case 1: // same length, only the last bytes differ
		b := append([]byte{}, data...)
		flip(b, len(b)-2)
		flip(b, len(b)-1)
		return b
	case 2: // same length, only the first bytes differ
		b := append([]byte{}, data...)
		flip(b, 0)
		flip(b, 1)
		return b
	case 3: // same length, one byte in the middle differs
		b := append([]byte{}, data...)
		flip(b, len(b)/2)
		return b
	default: // shorter
		return append([]byte{}, data[:len(data)/2]...)
	}
}

// staleDisk: a re-run into directories that already hold newer files of the
// same names (left by an earlier compilation of something else): the same DSL
// and flags must still yield the same bytes.
func staleDisk(text string, ref *CLIOutcome) []DiskEntry {
	disk := []DiskEntry{{Path: "in.dsl", Kind: "file", Data: []byte(text), AgeSec: 3600}}
	var ps []string
	for p, e := range ref.After {
		if strings.HasPrefix(p, "out/") && e.Kind == "file" {
			ps = append(ps, p)
		}
	}
	sort.Strings(ps)
	for k, p := range ps {
		disk = append(disk, DiskEntry{Path: p, Kind: "file", Data: staleVariant(ref.After[p].Data, k+len(ps))})
	}
	return disk
}

// fakeTools: executables named like formatters, linters and info commands a
// code generator might shell out to "when installed". Each one marks every
// existing file it is given and prints a recognisable line.
var fakeToolNames = []string{"clang-format", "gofmt", "goimports", "rustfmt", "black", "autopep8", "yapf", "prettier", "google-java-format", "stylua", "lua-format", "astyle", "cpplint", "git", "hostname", "uname", "whoami", "date"}

func fakeTools() []DiskEntry {
	var out []DiskEntry
	for _, n := range fakeToolNames {
		script := "#!/bin/sh\necho \"FAKE-TOOL " + n + " $*\"\nfor a in \"$@\"; do if [ -f \"$a\" ]; then printf '\\n// touched by " + n + "\\n' >> \"$a\"; fi; done\nexit 0\n"
		out = append(out, DiskEntry{Path: ".fakebin/" + n, Kind: "file", Data: []byte(script), Mode: 0o755})
	}
	return out
}

// rerunDisks builds the two initial disks and the pre-step of a
// rerun-after-edit pair for a given program text.
func rerunDisks(text string, w0, wi *CLIWorld) (ref, first []DiskEntry, pre []PreStep) {
	const stamp = 1700000000
	dirs := []DiskEntry{{Path: "home/.cache", Kind: "dir"}, {Path: "home/.config", Kind: "dir"}, {Path: "tmp", Kind: "dir"}}
	earlier := sameLengthEdit(text)
	ref = append([]DiskEntry{{Path: "in.dsl", Kind: "file", Data: []byte(text), MtimeUnix: stamp}}, dirs...)
	if earlier == text {
		return ref, ref, nil
	}
	first = append([]DiskEntry{{Path: "in.dsl", Kind: "file", Data: []byte(earlier), MtimeUnix: stamp}}, dirs...)
	pre = []PreStep{{Argv: wi.Argv, After: []DiskEntry{{Path: "in.dsl", Kind: "file", Data: []byte(text), MtimeUnix: stamp}}}}
	return
}

// sameLengthEdit returns a revision of the program that differs in content
// but not in length: one basic type swapped for another of equal spelling
// length (u16 <-> i16, u32 <-> i32 ...).
func sameLengthEdit(text string) string {
	for _, pair := range [][2]string{{" u16 ", " i16 "}, {" u32 ", " i32 "}, {" u64 ", " i64 "}, {" i16 ", " u16 "}, {" i32 ", " u32 "}, {" u8 ", " i8 "}, {" i8 ", " u8 "}, {" f32 ", " u32 "}, {" uint16 ", " uint32 "}, {" int32 ", " int64 "}} {
		if i := strings.Index(text, pair[0]); i >= 0 {
			return text[:i] + pair[1] + text[i+len(pair[0]):]
		}
	}
	return text
}

func variedEnv(r *Rng) []string {
	return []string{
		"TZ=" + r.Pick([]string{"Pacific/Kiritimati", "Etc/GMT+12", "Asia/Shanghai", "America/New_York"}),
		"LANG=" + r.Pick([]string{"zh_CN.UTF-8", "C", "de_DE.ISO-8859-1"}), "LC_ALL=" + r.Pick([]string{"zh_CN.UTF-8", "C", "tr_TR.UTF-8"}),
		"USER=" + r.Pick([]string{"alice", "buildbot"}), "LOGNAME=alice", "HOME=/home/" + r.Pick([]string{"alice", "ci"}), "HOSTNAME=buildbox7",
		"COLUMNS=" + r.Pick([]string{"40", "200"}), "TERM=dumb", "NO_COLOR=1", "CI=true", "GOMAXPROCS=" + r.Pick([]string{"1", "3", "16"}),
	}
}

func c13CLI(c *Ctx, n int) error {
	return ParallelFor(n, c.Workers, func(i int) error {
		seed := SubSeed(c.Seed, "c13cli", i)
		r := NewRng(seed)
		prog := GenProgSized(seed, i%12 == 5)
		if i%12 == 5 {
			c.ev.Fire("big_program", 1)
		}
		targets := AllTargets
		if i%6 == 3 {
			// a program without packets: only the per-packet targets survive it
			prog = GenDegenerate(seed)
			targets = [][]string{{"rust"}, {"go"}, {"java"}, {"rust", "go"}, {"rust", "go", "java"}}[r.Intn(5)]
			c.ev.Fire("degenerate_program", 1)
		} else if r.Chance(1, 3) {
			targets = randomHistorySorted(r)
		}
		text := prog.Render()
		argv := compileArgv(targets, r.Chance(1, 2), r.Chance(1, 2), r.Chance(1, 3))
		if i%6 == 4 {
			// "the same flags" may well name one directory for several targets:
			// 2-5 targets (without c++, whose year line is the listed known
			// finding) write into out/all
			var ts []string
			for _, t := range randomHistorySorted(r) {
				if t != "cpp" {
					ts = append(ts, t)
				}
			}
			for _, t := range []string{"go", "rust", "lua"} {
				if len(ts) < 2 && !contains(ts, t) {
					ts = append(ts, t)
				}
			}
			targets = ts
			argv = compileArgvDirs(targets, layoutDirs("shared-root", targets), r.Chance(1, 2), r.Chance(1, 2), r.Chance(1, 3))
			c.ev.Fire("several_targets_share_one_output_directory", 1)
		}
		mkWorld := func(cfg SchedConfig) *CLIWorld {
			return &CLIWorld{Argv: argv, Disk0: []DiskEntry{{Path: "in.dsl", Kind: "file", Data: []byte(text)}}, Sched: cfg}
		}
		w0 := mkWorld(s0())
		o0, err := c.sc.RunCLI(w0)
		if err != nil {
			return err
		}
		if o0.TimedOut {
			c.mu.Lock()
			c.inconclusive++
			c.mu.Unlock()
			return nil
		}
		c.ev.AddRecord(&o0.Rec)
		c.ev.Count("cli_worlds", 1)
		c.event(fmt.Sprintf("c13cli|%d|ref", i), text, argv, o0.Rec.Choices, treeSig(o0, ""), opSig(o0))
		if o0.Exit != 0 {
			c.ev.Count("cli_programs_exit_nonzero", 1)
		}
		cfgs := []struct {
			name string
			f    func(*SchedConfig)
		}{
			{"reverse", func(s *SchedConfig) { s.MapMode = "reverse" }},
			{"random", func(s *SchedConfig) { s.MapMode = "random" }},
			{"clock-yearstraddle", func(s *SchedConfig) { s.ClockMode = "yearstraddle" }},
			{"all-mix", func(s *SchedConfig) {
				s.MapMode, s.ClockMode, s.IdentMode = "mix", "mix", "vary"
				if bubbleOn {
					s.GoMode = "mix"
				}
			}},
			{"go-random", func(s *SchedConfig) {
				if bubbleOn {
					s.GoMode = "random"
				}
			}},
		}
		cfgs = append(cfgs, struct {
			name string
			f    func(*SchedConfig)
		}{"disk0-stale-output", func(s *SchedConfig) {}}, struct {
			name string
			f    func(*SchedConfig)
		}{"env-vary", func(s *SchedConfig) { s.EnvMode = "vary" }}, struct {
			name string
			f    func(*SchedConfig)
		}{"stdout-devfull", func(s *SchedConfig) {}}, struct {
			name string
			f    func(*SchedConfig)
		}{"rerun-after-edit", func(s *SchedConfig) {}}, struct {
			name string
			f    func(*SchedConfig)
		}{"transient-io-fault", func(s *SchedConfig) {}}, struct {
			name string
			f    func(*SchedConfig)
		}{"transient-io-fault", func(s *SchedConfig) {}}, struct {
			name string
			f    func(*SchedConfig)
		}{"stalled-machine", func(s *SchedConfig) {
			s.Bubble = true
			if s.GoMode == "" {
				s.GoMode = "fifo"
			}
		}})
		for k, cf := range cfgs {
			cfg := s0()
			cfg.Seed = SubSeed(seed, cf.name, k)
			cf.f(&cfg)
			wi := mkWorld(cfg)
			if cf.name == "disk0-stale-output" {
				wi.Disk0 = staleDisk(text, o0)
				c.ev.Fire("disk0_stale_files", 1)
			}
			if cf.name == "rerun-after-edit" {
				// durable state across runs: an earlier revision of the DSL (same
				// path, same length, same modification time) was compiled with the
				// same flags, HOME and the cache directory live inside the sandbox;
				// then the file is replaced and the identical command runs again
				earlier := sameLengthEdit(text)
				if earlier == text {
					continue
				}
				const stamp = 1700000000
				homeEnv := []string{"HOME={SB}/home", "XDG_CACHE_HOME={SB}/home/.cache", "XDG_CONFIG_HOME={SB}/home/.config", "TMPDIR={SB}/tmp"}
				dirs := []DiskEntry{{Path: "home/.cache", Kind: "dir"}, {Path: "home/.config", Kind: "dir"}, {Path: "tmp", Kind: "dir"}}
				w0.Env, w0.Disk0 = homeEnv, append([]DiskEntry{{Path: "in.dsl", Kind: "file", Data: []byte(text), MtimeUnix: stamp}}, dirs...)
				if o0, err = c.sc.RunCLI(w0); err != nil {
					return err
				}
				wi.Env = homeEnv
				wi.Disk0 = append([]DiskEntry{{Path: "in.dsl", Kind: "file", Data: []byte(earlier), MtimeUnix: stamp}}, dirs...)
				wi.Pre = []PreStep{{Argv: argv, After: []DiskEntry{{Path: "in.dsl", Kind: "file", Data: []byte(text), MtimeUnix: stamp}}}}
				c.ev.Fire("rerun_over_durable_state", 1)
			}
			if cf.name == "transient-io-fault" {
				// one write-class file operation (create, mkdir, open for
				// writing, rename ...) fails ONCE with a retryable error; every
				// later operation succeeds. A run that then reports failure
				// promises nothing; a run that still exits 0 has "compiled" and
				// must have produced the very same tree.
				nw := 0
				for _, op := range o0.Rec.Ops {
					if op.Write {
						nw++
					}
				}
				if nw == 0 {
					continue
				}
				wi.Sched.FaultOpIndex = 1 + r.Intn(nw)
				if r.Chance(1, 3) {
					wi.Sched.FaultOpIndex = 1 + r.Intn(min(nw, 3)) // early: right at a target's first directory / file
				}
				wi.Sched.FaultErrno = r.Pick([]string{"EIO", "ENOSPC", "EACCES", "EMFILE", "EDQUOT"})
			}
			if cf.name == "stalled-machine" {
				// a slow or suspended machine: the process stalls for seconds
				// to days of simulated time just before one of its file
				// operations (biased to the first: before the DSL is read).
				// Timers, deadlines and contexts see the time pass. A run that
				// then reports failure promises nothing; a run that exits 0 has
				// "compiled" and must have produced the very same tree.
				nops := len(o0.Rec.Ops)
				if nops == 0 {
					continue
				}
				wi.Sched.StallOp = 1 + r.Intn(nops)
				if r.Chance(1, 3) {
					wi.Sched.StallOp = 1
				}
				wi.Sched.StallSec = []int{2, 11, 61, 601, 7200, 172800}[r.Intn(6)]
				c.ev.Fire("machine_stall_scheduled", 1)
			}
			if cf.name == "stdout-devfull" {
				// the same command with a standard output on which every write fails
				wi.StdoutKind = "devfull"
				c.ev.Fire("stdout_write_error_ENOSPC", 1)
			}
			if cf.name == "env-vary" {
				// same DSL, same flags, another user's shell on another day: the
				// process environment is part of "process", not of the input
				wi.Env = append(variedEnv(r), "PATH={SB}/.fakebin:"+os.Getenv("PATH"))
				wi.Disk0 = append(append([]DiskEntry{}, wi.Disk0...), fakeTools()...)
				c.ev.Fire("process_environment_varied", 1)
				c.ev.Fire("external_tools_on_PATH", 1)
			}
			oi, err := c.sc.RunCLI(wi)
			if err != nil {
				return err
			}
			if oi.TimedOut {
				c.mu.Lock()
				c.inconclusive++
				c.mu.Unlock()
				continue
			}
			c.ev.AddRecord(&oi.Rec)
			c.ev.Count("cli_worlds", 1)
			c.event(fmt.Sprintf("c13cli|%d|%d", i, k), oi.Rec.Choices, treeSig(oi, ""), opSig(oi))
			if cf.name == "transient-io-fault" {
				if oi.Exit != 0 || o0.Exit != 0 {
					c.ev.Count("transient_fault_runs_that_reported_failure", 1)
					continue
				}
				c.ev.Count("transient_fault_runs_that_exited_0", 1)
			}
			if cf.name == "stalled-machine" {
				if oi.Exit != 0 || o0.Exit != 0 {
					c.ev.Count("stalled_runs_that_reported_failure", 1)
					continue
				}
				c.ev.Count("stalled_runs_that_exited_0", 1)
			}
			if sig, non := choiceSig(oi.Rec.Choices); non {
				c.ev.MarkDistinct(fmt.Sprintf("cli|%x|%s", seed, sig))
			}
			if i == 0 && k == 1 {
				c.ev.AddSample(map[string]any{"level": "cli", "argv": wi.Argv, "program": text, "choices": oi.Rec.Choices}, 4)
			}
			ts, diffs := cliDiff(o0, oi)
			for _, t := range ts {
				if t != "*" {
					if kf := c.known.Match("C13", "C13|cli|"+t, diffs[t]); kf != nil {
						c.knownHit(kf)
						continue
					}
				}
				c.candidate13CLI(i, prog, w0, wi, cf.name, t)
			}
		}
		return nil
	})
}

func (c *Ctx) candidate13CLI(caseIdx int, prog *Prog, w0, wi *CLIWorld, sname, target string) {
	c.mu.Lock()
	c.candidates++
	coarse := "C13cli|" + target
	// a library-level report for the same target already covers it
	for s := range c.sigSeen {
		if strings.HasPrefix(s, "V:C13|lib|"+target+"|") {
			c.mu.Unlock()
			return
		}
	}
	if c.sigSeen["coarse:"+coarse] || c.processed >= 40 {
		c.mu.Unlock()
		return
	}
	c.sigSeen["coarse:"+coarse] = true
	c.processed++
	c.mu.Unlock()
	candMu <- struct{}{}
	defer func() { <-candMu }()
	class := "C13|cli|" + target
	fails := func(p *Prog) (bool, *CLIOutcome, *CLIOutcome, []string) {
		a, b := *w0, *wi
		a.Disk0 = []DiskEntry{{Path: "in.dsl", Kind: "file", Data: []byte(p.Render())}}
		b.Disk0 = a.Disk0
		if sname == "rerun-after-edit" {
			a.Disk0, b.Disk0, b.Pre = rerunDisks(p.Render(), w0, wi)
			if b.Pre == nil {
				return false, nil, nil, nil
			}
		}
		if sname == "env-vary" {
			b.Disk0 = append(append([]DiskEntry{}, a.Disk0...), fakeTools()...)
		}
		oa, err := c.sc.RunCLI(&a)
		if err != nil || oa.TimedOut {
			return false, nil, nil, nil
		}
		if sname == "disk0-stale-output" {
			b.Disk0 = staleDisk(p.Render(), oa)
		}
		ob, err := c.sc.RunCLI(&b)
		if err != nil || ob.TimedOut {
			return false, nil, nil, nil
		}
		if (sname == "transient-io-fault" || sname == "stalled-machine") && (oa.Exit != 0 || ob.Exit != 0) {
			return false, oa, ob, nil // a run that reports failure promises nothing
		}
		ts, diffs := cliDiff(oa, ob)
		for _, t := range ts {
			if t == target {
				if t != "*" && c.known.Match("C13", class, diffs[t]) != nil {
					return false, oa, ob, nil
				}
				return true, oa, ob, diffs[t]
			}
		}
		return false, oa, ob, nil
	}
	ok, _, _, _ := fails(prog)
	if !ok {
		c.ev.Count("unconfirmed_candidates", 1)
		c.logf("CLI candidate (case %d, %s, %s) did not reproduce: not reported", caseIdx, sname, target)
		c.mu.Lock()
		delete(c.sigSeen, "coarse:"+coarse)
		c.mu.Unlock()
		return
	}
	small, used := ShrinkProg(prog, func(p *Prog) bool { ok, _, _, _ := fails(p); return ok }, 80)
	_, _, ob, diffs := fails(small)
	a, b := *w0, *wi
	a.Disk0 = []DiskEntry{{Path: "in.dsl", Kind: "file", Data: []byte(small.Render())}}
	b.Disk0 = a.Disk0
	if sname == "rerun-after-edit" {
		a.Disk0, b.Disk0, b.Pre = rerunDisks(small.Render(), w0, wi)
	}
	if sname == "env-vary" {
		b.Disk0 = append(append([]DiskEntry{}, a.Disk0...), fakeTools()...)
	}
	if sname == "disk0-stale-output" {
		if oa, err := c.sc.RunCLI(&a); err == nil {
			b.Disk0 = staleDisk(small.Render(), oa)
		}
	}
	if ob != nil {
		b.Sched.UseReplay = true
		b.Sched.Replay = ob.Rec.Choices
	}
	l0, l1 := "", ""
	if len(diffs) >= 2 {
		l0, l1 = diffs[0], diffs[1]
	}
	rf := &ReplayFile{Property: "C13", Kind: "cli-c13", RunSeed: c.Seed, Case: caseIdx, DSL: small.Render(), Target: target, CLI: &b, CLIRef: &a,
		Original:  map[string]any{"packets": len(prog.Pkts), "fields": prog.fieldCount()},
		Minimised: map[string]any{"packets": len(small.Pkts), "fields": small.fieldCount(), "shrink_evaluations": used}}
	c.report("C13|cli|"+target+"|"+sname, fmt.Sprintf("CLI: output tree for target %s differs between the sorted/pinned schedule and schedule %q: %q vs %q", target, sname, clip(l0, 120), clip(l1, 120)), diffs, rf)
}

// c13Fidelity validates the simulator against the unrewritten binary: real
// runs must agree with each other (else: nondeterminism outside every seam, a
// C13 violation in its own right) and, apart from lines a known finding
// explains, with the simulated reference schedule (else: the rewriter is
// unfaithful, exit 2).
func c13Fidelity(c *Ctx, n int) error {
	const runs = 5
	return ParallelFor(n, c.Workers, func(i int) error {
		seed := SubSeed(c.Seed, "c13fid", i)
		prog := GenProg(seed)
		text := prog.Render()
		disk := []DiskEntry{{Path: "in.dsl", Kind: "file", Data: []byte(text)}}
		sim := &CLIWorld{Argv: compileArgv(AllTargets, false, true, false), Disk0: disk, Sched: s0()}
		os0, err := c.sc.RunCLI(sim)
		if err != nil {
			return err
		}
		var first *CLIOutcome
		for k := 0; k < runs; k++ {
			rw := &CLIWorld{Argv: sim.Argv, Disk0: disk, Real: true, Env: []string{fmt.Sprintf("GOMAXPROCS=%d", []int{1, 4, 16, 2, 8}[k])}}
			or, err := c.sc.RunCLI(rw)
			if err != nil {
				return err
			}
			c.ev.Count("real_binary_runs", 1)
			if or.TimedOut || os0.TimedOut {
				continue
			}
			if first == nil {
				first = or
				// sim vs real
				ts, diffs := cliDiff(os0, or)
				for _, t := range ts {
					if t != "*" && c.known.Match("C13", "C13|cli|"+t, diffs[t]) != nil {
						continue
					}
					if os0.Exit == 0 || t != "*" {
						return infraf("simulator fidelity: rewritten and unrewritten binaries disagree on target %s for case %d (rewriter unfaithful?): %v\nprogram:\n%s", t, i, clipList(diffs[t], 6), text)
					}
				}
				if (os0.Exit == 0) != (or.Exit == 0) {
					return infraf("simulator fidelity: exit status differs for case %d: sim %d real %d\nprogram:\n%s", i, os0.Exit, or.Exit, text)
				}
				c.mu.Lock()
				c.ev.Counters["traces_validated_against_impl"]++
				c.mu.Unlock()
				continue
			}
			ts, diffs := cliDiff(first, or)
			for _, t := range ts {
				if t != "*" && c.known.Match("C13", "C13|cli|"+t, diffs[t]) != nil {
					c.knownHit(c.known.Match("C13", "C13|cli|"+t, diffs[t]))
					continue
				}
				l0, l1 := "", ""
				if len(diffs[t]) >= 2 {
					l0, l1 = diffs[t][0], diffs[t][1]
				}
				rf := &ReplayFile{Property: "C13", Kind: "real-c13", RunSeed: c.Seed, Case: i, DSL: text, Target: t, CLI: rw, CLIRef: rw}
				c.report("C13|real|"+t, fmt.Sprintf("two runs of the UNREWRITTEN binary on the same input differ on target %s: %q vs %q (replays as \"varies between runs\")", t, clip(l0, 120), clip(l1, 120)), diffs[t], rf)
			}
		}
		return nil
	})
}

func clipList(xs []string, n int) []string {
	if len(xs) > n {
		xs = xs[:n]
	}
	out := make([]string, len(xs))
	for i, x := range xs {
		out[i] = clip(x, 160)
	}
	return out
}

func contains(xs []string, x string) bool {
	for _, y := range xs {
		if y == x {
			return true
		}
	}
	return false
}

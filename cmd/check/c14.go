package main

import (
	"fmt"
	"regexp"
	"sort"
	"strings"
)

// C14 — targets are generated independently of one another (DESIGN.md 4).
//
// The "tasks" are the six generators, the shared object is the parsed model.
// The simulator owns the order: a history is an ordered subset of the six
// targets applied to ONE parsed model. Invariants after every step:
//   I1  fingerprint(model) == fingerprint right after parsing
//   I2  files(step) == files of the same target generated alone on a fresh parse
// Map order and clock are pinned, so C13 effects cannot leak in.

// allHistories enumerates every ordered subset (length >= 1) of the targets: 1956.
func allHistories() [][]string {
	var out [][]string
	var rec func(cur []string, used int)
	rec = func(cur []string, used int) {
		if len(cur) > 0 {
			out = append(out, append([]string(nil), cur...))
		}
		for i, t := range AllTargets {
			if used&(1<<i) == 0 {
				rec(append(cur, t), used|1<<i)
			}
		}
	}
	rec(nil, 0)
	return out
}

func randomHistory(r *Rng) []string {
	perm := append([]string(nil), AllTargets...)
	for i := len(perm) - 1; i > 0; i-- {
		j := r.Intn(i + 1)
		perm[i], perm[j] = perm[j], perm[i]
	}
	n := 2 + r.Intn(len(perm)-1)
	return perm[:n]
}

type c14Fail struct {
	kind   string // I1 | I2
	step   int
	victim string
}

// checkHistory evaluates both invariants on a world's response.
func checkHistory(ref *Resp, r *Resp) []c14Fail {
	var out []c14Fail
	for k := range r.Steps {
		st := &r.Steps[k]
		if st.FP != r.FP0 {
			out = append(out, c14Fail{"I1", k, st.Target})
			// later steps would all fail I1 as well; report the first mutation only
			for j := k; j < len(r.Steps); j++ {
				if rs := stepByTarget(ref, r.Steps[j].Target); rs != nil && stepSig(rs) != stepSig(&r.Steps[j]) {
					out = append(out, c14Fail{"I2", j, r.Steps[j].Target})
				}
			}
			return out
		}
		if rs := stepByTarget(ref, st.Target); rs != nil && stepSig(rs) != stepSig(st) {
			out = append(out, c14Fail{"I2", k, st.Target})
		}
	}
	return out
}

func runC14(c *Ctx) error {
	thorough := c.Tier == "thorough"
	nprog := envInt("VERIF_C14_PROGRAMS", 450)
	nfull := envInt("VERIF_C14_FULL", 6)
	ncli := envInt("VERIF_C14_CLI", 18)
	if thorough {
		nprog = envInt("VERIF_C14_PROGRAMS", 40000)
		nfull = envInt("VERIF_C14_FULL", 1000)
		ncli = envInt("VERIF_C14_CLI", 300)
	}
	pool := NewPool(c.sc.Worker, c.Workers, 1)
	defer pool.Close()
	// Reference workers are dedicated per target: a worker that computes the
	// "target alone" reference never runs any other generator, so state that a
	// generator leaves behind in the process (not only in the model) cannot
	// contaminate another target's baseline.
	refPools := map[string]*Pool{}
	for _, t := range AllTargets {
		refPools[t] = NewPool(c.sc.Worker, max(1, c.Workers/6), 1)
	}
	defer func() {
		for _, p := range refPools {
			p.Close()
		}
	}()
	c.ncases = nprog
	hall := allHistories()
	var pairs [][]string
	for _, h := range hall {
		if len(h) == 2 {
			pairs = append(pairs, h)
		}
	}
	c.ev.Extra["histories_per_fully_enumerated_program"] = len(hall)
	c.logf("library level: %d programs (%d with all %d histories)", nprog, nfull, len(hall))
	err := ParallelFor(nprog, c.Workers+4, func(i int) error {
		seed := SubSeed(c.Seed, "c14", i)
		prog := GenProg(seed)
		text := prog.Render()
		var ref *Resp
		for _, t := range AllTargets {
			rt, err := refPools[t].Do(&Req{ID: i, Op: "gen", DSL: []byte(text), History: []string{t}, Sched: s0()})
			if err != nil {
				return err
			}
			c.ev.AddRecord(&rt.Rec)
			c.noteUnseamed(rt)
			if ref == nil {
				ref = rt
			} else if validity(rt) == "OK" && validity(ref) == "OK" {
				ref.Steps = append(ref.Steps, rt.Steps...)
			} else if validity(rt) != "OK" {
				ref = rt
			}
		}
		c.ev.Count("programs", 1)
		if v := validity(ref); v != "OK" {
			c.ev.Count("programs_rejected_or_crashing:"+strings.SplitN(v, ":", 2)[0], 1)
			if ref.TimedOut {
				c.mu.Lock()
				c.inconclusive++
				c.mu.Unlock()
			}
			return nil
		}
		if prog.Stats().NulPadding {
			c.ev.Count("programs_with_nul_padding", 1)
		}
		if prog.Stats().MetaFixedShared {
			c.ev.Count("programs_with_metadata_shared_fixed_strings", 1)
		}
		// I1 for the reference itself: alone on a fresh model, a generator must not alter that model
		for k := range ref.Steps {
			if ref.Steps[k].FP != ref.FP0 {
				c.candidate14(i, prog, []string{ref.Steps[k].Target}, c14Fail{"I1", 0, ref.Steps[k].Target})
			}
		}
		var hs [][]string
		if i < nfull {
			hs = hall
			c.ev.Count("programs_with_all_histories", 1)
		} else {
			hs = append(hs, AllTargets)
			hs = append(hs, pairs...)
			r := NewRng(SubSeed(seed, "hist", 0))
			for k := 0; k < 30; k++ {
				hs = append(hs, randomHistory(r))
			}
		}
		for hi, h := range hs {
			r, err := pool.Do(&Req{ID: i, Op: "gen", DSL: []byte(text), History: h, Sched: s0()})
			if err != nil {
				return err
			}
			c.ev.AddRecord(&r.Rec)
			c.event(fmt.Sprintf("c14|%d|%04d", i, hi), strings.Join(h, ">"), r.Rec.Choices, respSig(r))
			if r.TimedOut || r.Crashed != "" {
				c.mu.Lock()
				c.inconclusive++
				c.mu.Unlock()
				continue
			}
			c.ev.Count("generator_runs", len(h))
			if len(h) >= 2 {
				c.ev.MarkDistinct(fmt.Sprintf("%x|%s", seed, strings.Join(h, ">")))
			}
			if i < 2 && hi == len(hs)-1 {
				c.ev.AddSample(map[string]any{"program": text, "history": h, "invariants": "I1 model fingerprint unchanged after every step; I2 files == same target alone on a fresh parse"}, 3)
			}
			for _, f := range checkHistory(ref, r) {
				c.candidate14(i, prog, h, f)
			}
		}
		return nil
	})
	if err != nil {
		return err
	}
	c.logf("CLI level: %d programs", ncli)
	return c14CLI(c, ncli, thorough)
}

func (c *Ctx) candidate14(caseIdx int, prog *Prog, hist []string, f c14Fail) {
	c.mu.Lock()
	c.candidates++
	coarse := "C14|" + f.kind + "|" + f.victim
	if c.sigSeen["coarse:"+coarse] || c.processed >= 40 {
		c.mu.Unlock()
		return
	}
	c.mu.Unlock()
	candMu <- struct{}{}
	defer func() { <-candMu }()
	c.mu.Lock()
	if c.sigSeen["coarse:"+coarse] {
		c.mu.Unlock()
		return
	}
	c.mu.Unlock()

	// fails: does history h (victim last) still break invariant kind at its last step?
	type res struct {
		ok       bool
		ref, got *Resp
	}
	fails := func(p *Prog, h []string) res {
		text := []byte(p.Render())
		// the reference is truly alone: its own fresh process, no other generator runs there
		ref, err := DoFresh(c.sc.Worker, &Req{Op: "gen", DSL: text, History: []string{h[len(h)-1]}, Sched: s0(), WantBytes: true}, 1)
		if err != nil || validity(ref) != "OK" {
			return res{}
		}
		got, err := DoFresh(c.sc.Worker, &Req{Op: "gen", DSL: text, History: h, Sched: s0(), WantBytes: true}, 1)
		if err != nil || validity(got) != "OK" || len(got.Steps) != len(h) {
			return res{}
		}
		last := &got.Steps[len(h)-1]
		switch f.kind {
		case "I1":
			// the LAST step is the first one to alter the model
			for k := 0; k < len(h)-1; k++ {
				if got.Steps[k].FP != got.FP0 {
					return res{}
				}
			}
			return res{last.FP != got.FP0, ref, got}
		default:
			rs := stepByTarget(ref, last.Target)
			return res{rs != nil && stepSig(rs) != stepSig(last), ref, got}
		}
	}
	h := append([]string(nil), hist[:f.step+1]...)
	if f.kind == "I1" {
		// cut at the first mutating step (checkHistory reports exactly that one)
	}
	r := fails(prog, h)
	if !r.ok {
		c.ev.Count("candidates_not_reproducible_from_a_cold_process", 1)
		c.mu.Lock()
		tries := c.warmTries
		c.warmTries++
		c.mu.Unlock()
		if f.kind == "I2" && tries < 6 && c.warmSearch("c14", caseIdx, c.ncases, prog, h, f.victim) {
			return
		}
		c.ev.Count("unconfirmed_candidates", 1)
		c.logf("candidate (case %d, %s at %s in %v) reproduced neither in a fresh process nor in a warm session: not reported", caseIdx, f.kind, f.victim, h)
		return
	}
	c.mu.Lock()
	c.sigSeen["coarse:"+coarse] = true
	c.processed++
	c.mu.Unlock()
	origLen := len(hist)
	// shrink the history: drop earlier steps
	for i := 0; i < len(h)-1; {
		cand := append(append([]string(nil), h[:i]...), h[i+1:]...)
		if fails(prog, cand).ok {
			h = cand
		} else {
			i++
		}
	}
	small, used := ShrinkProg(prog, func(p *Prog) bool { return fails(p, h).ok }, 250)
	r = fails(small, h)
	if !r.ok {
		small = prog
		r = fails(prog, h)
	}
	var summary, sig string
	var diffs []string
	expect := map[string]any{}
	if f.kind == "I1" {
		last := &r.got.Steps[len(h)-1]
		a, b := diffSegment(r.got.FP0Text, last.FPText)
		if len(h) > 1 {
			a, b = diffSegment(r.got.Steps[len(h)-2].FPText, last.FPText)
		}
		sig = "C14|lib|I1|" + f.victim + "|after:" + strings.Join(h[:len(h)-1], ">")
		summary = fmt.Sprintf("generating %s alters the parsed model (history %v): model state %q became %q", f.victim, h, clip(a, 100), clip(b, 100))
		expect["model_before"], expect["model_after"] = a, b
		diffs = []string{a, b}
	} else {
		rs := stepByTarget(r.ref, f.victim)
		last := &r.got.Steps[len(h)-1]
		file, line, l0, l1, d := firstFileDiff(rs, last)
		diffs = d
		sig = "C14|lib|I2|" + f.victim + "|after:" + strings.Join(h[:len(h)-1], ">")
		summary = fmt.Sprintf("files of target %s depend on which generators ran before it on the same model (history %v): %s line %d is %q alone but %q after %v", f.victim, h, file, line, clip(l0, 100), clip(l1, 100), h[:len(h)-1])
		expect["file"], expect["line"], expect["alone"], expect["in_history"] = file, line, l0, l1
	}
	rs := s0()
	rf := &ReplayFile{Property: "C14", Kind: "lib-c14", RunSeed: c.Seed, Case: caseIdx, DSL: small.Render(), History: h, Sched: &rs, RefSched: &rs, Target: f.victim,
		Expect:    expect,
		Original:  map[string]any{"packets": len(prog.Pkts), "fields": prog.fieldCount(), "history_len": origLen},
		Minimised: map[string]any{"packets": len(small.Pkts), "fields": small.fieldCount(), "history_len": len(h), "shrink_evaluations": used}}
	rf.Expect["invariant"] = f.kind
	c.report(sig, summary, diffs, rf)
}

// diffSegment returns a short window around the first difference of two strings.
func diffSegment(a, b string) (string, string) {
	i := 0
	for i < len(a) && i < len(b) && a[i] == b[i] {
		i++
	}
	lo := i - 60
	if lo < 0 {
		lo = 0
	}
	hi := func(s string) int {
		h := i + 40
		if h > len(s) {
			h = len(s)
		}
		return h
	}
	return a[lo:hi(a)], b[lo:hi(b)]
}

// ---- CLI level ----

// discoverBoolFlags asks the binary itself which boolean flags `compile`
// accepts beyond the ones this harness knows. A switch a change has added
// (--clean, --quiet, --force ...) is then exercised too: the relational oracle
// "alone == together" needs no knowledge of what the switch means.
func discoverBoolFlags(c *Ctx) []string {
	o, err := c.sc.RunCLI(&CLIWorld{Argv: []string{"compile", "--help"}, Sched: s0()})
	if err != nil || o.TimedOut {
		return nil
	}
	re := regexp.MustCompile(`(?m)^\s+(?:-\w, )?--([A-Za-z0-9_-]+)( [A-Za-z]+)?\s\s+`)
	known := map[string]bool{"help": true}
	var out []string
	for _, m := range re.FindAllStringSubmatch(string(o.Stdout), -1) {
		if m[2] == "" && !known[m[1]] {
			known[m[1]] = true
			out = append(out, "--"+m[1])
		}
	}
	if len(out) > 3 {
		out = out[:3]
	}
	return out
}

func c14CLI(c *Ctx, n int, thorough bool) error {
	extraFlags := discoverBoolFlags(c)
	if len(extraFlags) > 0 {
		c.logf("compile advertises boolean flags this harness does not know: %v — exercised with the relational oracle", extraFlags)
		c.ev.Extra["extra_boolean_flags_exercised"] = extraFlags
	}
	return ParallelFor(n, c.Workers, func(i int) error {
		seed := SubSeed(c.Seed, "c14cli", i)
		r := NewRng(seed)
		prog := GenProg(seed)
		text := prog.Render()
		disk := []DiskEntry{{Path: "in.dsl", Kind: "file", Data: []byte(text)}}
		long, sub, abs := r.Chance(1, 2), r.Chance(1, 2), r.Chance(1, 3)
		var goCfg *SchedConfig // set while the combined runs are repeated under other goroutine schedules
		// process-wide OS state a target's step may read or change: in one
		// program of three every invocation (alone and combined alike) starts
		// in a foreign shell environment — $PWD and $OLDPWD name OTHER existing
		// directories than the working directory (make -C, env -C, a
		// subprocess started with cwd=...), TMPDIR and HOME live in the sandbox
		var env []string
		if er := NewRng(SubSeed(seed, "foreign-env", 0)); er.Chance(1, 3) {
			env = []string{"PWD={SB}/elsewhere", "OLDPWD={SB}/before", "TMPDIR={SB}/tmp", "HOME={SB}/home"}
			disk = append(disk, DiskEntry{Path: "elsewhere", Kind: "dir"}, DiskEntry{Path: "before", Kind: "dir"}, DiskEntry{Path: "tmp", Kind: "dir"}, DiskEntry{Path: "home", Kind: "dir"})
			c.ev.Fire("process_starts_with_PWD_other_than_cwd", 1)
		}
		runSet := func(ts []string) (*CLIOutcome, *CLIWorld, error) {
			w := &CLIWorld{Argv: compileArgv(ts, long, sub, abs), Disk0: disk, Sched: s0(), Env: env}
			if goCfg != nil {
				w.Sched = *goCfg
			}
			o, err := c.sc.RunCLI(w)
			if err == nil {
				c.ev.AddRecord(&o.Rec)
				c.ev.Count("cli_worlds", 1)
				c.event(fmt.Sprintf("c14cli|%d|%s", i, strings.Join(ts, "+")), w.Argv, treeSig(o, ""), opSig(o))
			}
			return o, w, err
		}
		alone := map[string]*CLIOutcome{}
		for _, t := range AllTargets {
			o, _, err := runSet([]string{t})
			if err != nil {
				return err
			}
			if o.TimedOut {
				return nil
			}
			if o.Exit != 0 {
				c.ev.Count("cli_programs_exit_nonzero", 1)
				return nil
			}
			alone[t] = o
		}
		var subsets [][]string
		for m := 1; m < 64; m++ {
			var ts []string
			for k, t := range AllTargets {
				if m&(1<<k) != 0 {
					ts = append(ts, t)
				}
			}
			if len(ts) >= 2 {
				subsets = append(subsets, ts)
			}
		}
		if !thorough {
			// the full set plus a seeded sample of the 57 multi-target subsets
			full := subsets[len(subsets)-1]
			for k := len(subsets) - 1; k > 0; k-- {
				j := r.Intn(k + 1)
				subsets[k], subsets[j] = subsets[j], subsets[k]
			}
			subsets = append([][]string{full}, subsets[:14]...)
		}
		type setRun struct {
			ts  []string
			cfg *SchedConfig
		}
		var runs []setRun
		for _, ts := range subsets {
			runs = append(runs, setRun{ts, nil})
		}
		if bubbleOn {
			// the tree starts goroutines (generators may run concurrently over
			// the one model): "in whatever order generators run" is then also a
			// matter of the goroutine schedule, so the combined invocations are
			// repeated under scheduler-chosen interleavings and preemption
			for k, ts := range subsets {
				if k >= 6 {
					break
				}
				for v, pe := range []int{0, 0, 3, 40} {
					cfg := s0()
					cfg.Seed = SubSeed(seed, "c14go", k*10+v)
					cfg.GoMode, cfg.PreemptEvery = []string{"lifo", "random", "random", "random"}[v], pe
					runs = append(runs, setRun{ts, &cfg})
				}
			}
			c.ev.Fire("combined_invocation_under_goroutine_schedules", len(runs)-len(subsets))
		}
		for _, sr := range runs {
			ts := sr.ts
			goCfg = sr.cfg
			o, w, err := runSet(ts)
			goCfg = nil
			if err != nil {
				return err
			}
			if o.TimedOut {
				c.mu.Lock()
				c.inconclusive++
				c.mu.Unlock()
				continue
			}
			c.ev.MarkDistinct(fmt.Sprintf("cli|%x|%s", seed, strings.Join(ts, "+")))
			if o.Exit != 0 {
				c.candidate14CLI(i, prog, w, ts, "*", "", []string{fmt.Sprintf("exit %d with targets %v although every target alone exits 0", o.Exit, ts)})
				continue
			}
			for _, t := range ts {
				sa, sb := alone[t].subtree(targetDir[t]), o.subtree(targetDir[t])
				var diffs []string
				names := map[string]bool{}
				for nme := range sa {
					names[nme] = true
				}
				for nme := range sb {
					names[nme] = true
				}
				for _, nme := range sortedKeys(names) {
					ea, oka := sa[nme]
					eb, okb := sb[nme]
					if oka != okb {
						diffs = append(diffs, "file set differs: "+nme)
					} else if ea.Sha != eb.Sha {
						diffs = append(diffs, allDiffLines(ea.Data, eb.Data)...)
					}
				}
				if len(diffs) > 0 {
					c.candidate14CLI(i, prog, w, ts, t, "", diffs)
				}
			}
		}
		// flat and nested layouts: several targets share one output root, or
		// one target's root lies inside another's
		for _, layout := range []string{"shared-root", "nested-roots", "prefix-siblings", "nested-reverse"} {
			sets := [][]string{AllTargets}
			for k := 0; k < 3; k++ {
				sets = append(sets, randomHistorySorted(r))
			}
			if thorough {
				for k := 0; k < 8; k++ {
					sets = append(sets, randomHistory(r))
				}
			}
			for si, ts := range sets {
				dirs := layoutDirs(layout, ts)
				if si%2 == 1 {
					dirs[mixAbsKey] = "" // relative and absolute spellings mixed within one invocation
					c.ev.Fire("argv_mixed_relative_and_absolute_dirs", 1)
				}
				w := &CLIWorld{Argv: compileArgvDirs(ts, dirs, long, sub, abs), Disk0: disk, Sched: s0()}
				o, err := c.sc.RunCLI(w)
				if err != nil {
					return err
				}
				c.ev.AddRecord(&o.Rec)
				c.ev.Count("cli_worlds", 1)
				c.ev.Fire("layout_"+layout, 1)
				c.event(fmt.Sprintf("c14cli|%d|%s|%s", i, layout, strings.Join(ts, "+")), w.Argv, treeSig(o, ""), opSig(o))
				if o.TimedOut {
					continue
				}
				c.ev.MarkDistinct(fmt.Sprintf("cli|%x|%s|%s", seed, layout, strings.Join(ts, "+")))
				if o.Exit != 0 {
					c.candidate14CLI(i, prog, w, ts, "*", layout, []string{fmt.Sprintf("exit %d with targets %v in layout %s although every target alone exits 0", o.Exit, ts, layout)})
					continue
				}
				for _, t := range ts {
					if d := layoutDiff(alone, o, dirs, ts, t); len(d) > 0 {
						lay := layout
						if _, mix := dirs[mixAbsKey]; mix {
							lay += "+mixed-abs"
						}
						c.candidate14CLI(i, prog, w, ts, t, lay, d)
					}
				}
			}
			// switches this harness has never heard of: every target alone WITH the
			// switch versus all targets together WITH the switch, in this layout
			if layout != "prefix-siblings" {
				for _, xf := range extraFlags {
					aloneX := map[string]*CLIOutcome{}
					okX := true
					for _, t := range AllTargets {
						ox, err := c.sc.RunCLI(&CLIWorld{Argv: append(compileArgv([]string{t}, long, sub, abs), xf), Disk0: disk, Sched: s0()})
						if err != nil {
							return err
						}
						c.ev.Count("cli_worlds", 1)
						if ox.TimedOut || ox.Exit != 0 {
							okX = false
						}
						aloneX[t] = ox
					}
					if !okX {
						continue
					}
					dirs := layoutDirs(layout, AllTargets)
					w := &CLIWorld{Argv: append(compileArgvDirs(AllTargets, dirs, long, sub, abs), xf), Disk0: disk, Sched: s0()}
					o, err := c.sc.RunCLI(w)
					if err != nil {
						return err
					}
					c.ev.AddRecord(&o.Rec)
					c.ev.Count("cli_worlds", 1)
					c.ev.Fire("extra_flag_"+xf, 1)
					if o.TimedOut {
						continue
					}
					for _, t := range AllTargets {
						d := layoutDiff(aloneX, o, dirs, AllTargets, t)
						if len(d) == 0 {
							continue
						}
						c.mu.Lock()
						c.candidates++
						dup := c.sigSeen["coarse:C14cli-xflag|"+xf+"|"+t]
						c.sigSeen["coarse:C14cli-xflag|"+xf+"|"+t] = true
						c.mu.Unlock()
						if dup {
							continue
						}
						o2, err := c.sc.RunCLI(w)
						if err != nil || o2.TimedOut || len(layoutDiff(aloneX, o2, dirs, AllTargets, t)) == 0 {
							continue
						}
						rf := &ReplayFile{Property: "C14", Kind: "cli-c14-xflag", RunSeed: c.Seed, Case: i, DSL: text, Target: t, History: AllTargets, CLI: w,
							Expect: map[string]any{"layout": layout, "flag": xf}}
						c.report("C14|cli|"+t+"|xflag|"+xf+"|"+layout, fmt.Sprintf("CLI: with the switch %s, the tree written for target %s differs between requesting it alone and requesting all targets in layout %s: %v", xf, t, layout, clipList(d, 2)), d, rf)
					}
				}
			}
			// resource fault: a descriptor limit just above what the hungriest
			// single target needs; a leak that accumulates from one target to
			// the next runs into it only when several targets are requested
			if layout == "shared-root" {
				most := 0
				for _, t := range AllTargets {
					if n := len(alone[t].subtree(targetDir[t])); n > most {
						most = n
					}
				}
				limit := most + 9 // measured: the process itself needs about 6 descriptors beyond the files one target keeps open
				okAlone := true
				for _, t := range AllTargets {
					oa, err := c.sc.RunCLI(&CLIWorld{Argv: compileArgv([]string{t}, long, sub, abs), Disk0: disk, Sched: s0(), NoFile: limit})
					if err != nil {
						return err
					}
					c.ev.Count("cli_worlds", 1)
					if oa.TimedOut || oa.Exit != 0 {
						okAlone = false // the limit is too tight for this tree even alone: no oracle
					}
				}
				if okAlone {
					w := &CLIWorld{Argv: compileArgv(AllTargets, long, sub, abs), Disk0: disk, Sched: s0(), NoFile: limit}
					o, err := c.sc.RunCLI(w)
					if err != nil {
						return err
					}
					c.ev.AddRecord(&o.Rec)
					c.ev.Count("cli_worlds", 1)
					c.ev.Fire("fault_low_descriptor_limit", 1)
					if !o.TimedOut {
						for _, t := range AllTargets {
							d := layoutDiff(alone, o, layoutDirs("", AllTargets), AllTargets, t)
							if o.Exit != 0 && len(d) == 0 {
								continue
							}
							if len(d) == 0 {
								continue
							}
							c.mu.Lock()
							c.candidates++
							dup := c.sigSeen["coarse:C14cli-nofile"]
							c.sigSeen["coarse:C14cli-nofile"] = true
							c.mu.Unlock()
							if dup {
								break
							}
							// confirm: twice more
							again := 0
							for k := 0; k < 2; k++ {
								if o2, err := c.sc.RunCLI(w); err == nil && !o2.TimedOut && len(layoutDiff(alone, o2, layoutDirs("", AllTargets), AllTargets, t)) > 0 {
									again++
								}
							}
							if again == 0 {
								break
							}
							rf := &ReplayFile{Property: "C14", Kind: "cli-c14-nofile", RunSeed: c.Seed, Case: i, DSL: text, Target: t, History: AllTargets, CLI: w,
								Expect: map[string]any{"descriptor_limit": limit, "every_target_alone_succeeds_under_the_same_limit": true}}
							c.report("C14|cli|"+t+"|nofile", fmt.Sprintf("CLI: under a descriptor limit of %d every target alone is written completely, but requested together (exit %d) the tree of target %s is incomplete or different: %v", limit, o.Exit, t, clipList(d, 2)), d, rf)
							break
						}
					}
				}
			}
			// fault: a directory sits where a LATER target wants to create a file,
			// so that target fails; what the targets before it wrote must stay
			if layout == "shared-root" || layout == "nested-roots" {
				ts := AllTargets
				fi := 1 + r.Intn(len(ts)-1)
				failing := ts[fi]
				var fname string
				for _, n := range sortedKeys(keysOf(alone[failing].subtree(targetDir[failing]))) {
					if !strings.Contains(n, "/") {
						fname = n
						break
					}
				}
				if fname == "" {
					for _, n := range sortedKeys(keysOf(alone[failing].subtree(targetDir[failing]))) {
						fname = n
						break
					}
				}
				dirs := layoutDirs(layout, ts)
				fdisk := append(append([]DiskEntry{}, disk...), DiskEntry{Path: dirs[failing] + "/" + fname, Kind: "dir"})
				w := &CLIWorld{Argv: compileArgvDirs(ts, dirs, long, sub, abs), Disk0: fdisk, Sched: s0()}
				o, err := c.sc.RunCLI(w)
				if err != nil {
					return err
				}
				c.ev.AddRecord(&o.Rec)
				c.ev.Count("cli_worlds", 1)
				c.ev.Fire("fault_directory_where_a_file_is_expected", 1)
				c.event(fmt.Sprintf("c14cli|%d|%s|obstacle|%s", i, layout, failing), w.Argv, treeSig(o, ""), opSig(o))
				if !o.TimedOut {
					for _, t := range ts[:fi] {
						if d := layoutDiff(alone, o, dirs, ts[:fi], t); len(d) > 0 {
							c.mu.Lock()
							c.candidates++
							dup := c.sigSeen["coarse:C14cli-obstacle|"+t]
							c.sigSeen["coarse:C14cli-obstacle|"+t] = true
							c.mu.Unlock()
							if dup {
								continue
							}
							// confirm once more in a fresh world
							o2, err := c.sc.RunCLI(w)
							if err != nil || o2.TimedOut || len(layoutDiff(alone, o2, dirs, ts[:fi], t)) == 0 {
								continue
							}
							rf := &ReplayFile{Property: "C14", Kind: "cli-c14-obstacle", RunSeed: c.Seed, Case: i, DSL: text, Target: t, History: ts[:fi], CLI: w,
								Expect: map[string]any{"layout": layout, "failing_target": failing, "obstacle": dirs[failing] + "/" + fname}}
							c.report("C14|cli|"+t+"|obstacle|"+layout, fmt.Sprintf("CLI: when a later target (%s) fails to write (a directory sits at %s), files that target %s had already written in the same invocation are gone or changed: %v", failing, dirs[failing]+"/"+fname, t, clipList(d, 2)), d, rf)
						}
					}
				}
			}
		}
		return nil
	})
}

func keysOf(m map[string]TreeEntry) map[string]bool {
	out := map[string]bool{}
	for k := range m {
		out[k] = true
	}
	return out
}

// randomHistorySorted: a random subset (>= 2 targets) in the CLI's fixed order.
func randomHistorySorted(r *Rng) []string {
	for {
		var ts []string
		for _, t := range AllTargets {
			if r.Chance(1, 2) {
				ts = append(ts, t)
			}
		}
		if len(ts) >= 2 {
			return ts
		}
	}
}

func (c *Ctx) candidate14CLI(caseIdx int, prog *Prog, w *CLIWorld, ts []string, victim string, layout string, diffs []string) {
	c.mu.Lock()
	c.candidates++
	for s := range c.sigSeen {
		if strings.HasPrefix(s, "V:C14|lib|I2|"+victim+"|") {
			c.mu.Unlock()
			return // the library-level report for the same victim covers it
		}
	}
	coarse := "C14cli|" + victim + "|" + layout
	if c.sigSeen["coarse:"+coarse] || c.processed >= 40 {
		c.mu.Unlock()
		return
	}
	c.sigSeen["coarse:"+coarse] = true
	c.processed++
	c.mu.Unlock()
	candMu <- struct{}{}
	defer func() { <-candMu }()
	long := len(w.Argv) > 0 && (w.Argv[0] == "--file" || (len(w.Argv) > 1 && w.Argv[1] == "--file"))
	sub := len(w.Argv) > 0 && w.Argv[0] == "compile"
	abs := strings.Contains(strings.Join(w.Argv, " "), "{SB}")
	fails := func(p *Prog, set []string) (bool, []string, *CLIWorld, *CLIWorld) {
		disk := []DiskEntry{{Path: "in.dsl", Kind: "file", Data: []byte(p.Render())}}
		if len(w.Env) > 0 {
			// the directories the foreign environment names
			for _, e := range w.Disk0 {
				if e.Kind == "dir" {
					disk = append(disk, e)
				}
			}
		}
		wa := &CLIWorld{Argv: compileArgv([]string{victim}, long, sub, abs), Disk0: disk, Sched: s0(), Env: w.Env}
		wb := &CLIWorld{Argv: compileArgvDirs(set, layoutDirs(layout, set), long, sub, abs), Disk0: disk, Sched: w.Sched, Env: w.Env}
		wb.Sched.Sandbox, wb.Sched.Out = "", ""
		if victim == "*" {
			ob, err := c.sc.RunCLI(wb)
			if err != nil || ob.TimedOut {
				return false, nil, wa, wb
			}
			for _, t := range set {
				wt := &CLIWorld{Argv: compileArgv([]string{t}, long, sub, abs), Disk0: disk, Sched: s0(), Env: w.Env}
				ot, err := c.sc.RunCLI(wt)
				if err != nil || ot.TimedOut || ot.Exit != 0 {
					return false, nil, wa, wb
				}
			}
			return ob.Exit != 0, []string{fmt.Sprintf("exit %d", ob.Exit)}, wa, wb
		}
		oa, err := c.sc.RunCLI(wa)
		if err != nil || oa.TimedOut || oa.Exit != 0 {
			return false, nil, wa, wb
		}
		ob, err := c.sc.RunCLI(wb)
		if err != nil || ob.TimedOut {
			return false, nil, wa, wb
		}
		if layout != "" {
			al := map[string]*CLIOutcome{victim: oa}
			for _, u := range set {
				if u == victim {
					continue
				}
				ou, err := c.sc.RunCLI(&CLIWorld{Argv: compileArgv([]string{u}, long, sub, abs), Disk0: disk, Sched: s0(), Env: w.Env})
				if err != nil || ou.TimedOut {
					return false, nil, wa, wb
				}
				al[u] = ou
			}
			d := layoutDiff(al, ob, layoutDirs(layout, set), set, victim)
			return len(d) > 0, d, wa, wb
		}
		sa, sb := oa.subtree(targetDir[victim]), ob.subtree(targetDir[victim])
		var d []string
		names := map[string]bool{}
		for n := range sa {
			names[n] = true
		}
		for n := range sb {
			names[n] = true
		}
		for _, n := range sortedKeys(names) {
			ea, oka := sa[n]
			eb, okb := sb[n]
			if oka != okb {
				d = append(d, "file set differs: "+n)
			} else if ea.Sha != eb.Sha {
				d = append(d, allDiffLines(ea.Data, eb.Data)...)
			}
		}
		return len(d) > 0, d, wa, wb
	}
	set := append([]string(nil), ts...)
	if ok, _, _, _ := fails(prog, set); !ok {
		c.ev.Count("unconfirmed_candidates", 1)
		c.logf("CLI candidate (case %d, victim %s in %v) did not reproduce: not reported", caseIdx, victim, ts)
		c.mu.Lock()
		delete(c.sigSeen, "coarse:"+coarse)
		c.mu.Unlock()
		return
	}
	for i := 0; i < len(set); {
		if set[i] == victim {
			i++
			continue
		}
		cand := append(append([]string(nil), set[:i]...), set[i+1:]...)
		if len(cand) >= 1 {
			if ok, _, _, _ := fails(prog, cand); ok {
				set = cand
				continue
			}
		}
		i++
	}
	small, used := ShrinkProg(prog, func(p *Prog) bool { ok, _, _, _ := fails(p, set); return ok }, 60)
	_, d, wa, wb := fails(small, set)
	l0, l1 := "", ""
	if len(d) >= 2 {
		l0, l1 = d[0], d[1]
	} else if len(d) == 1 {
		l0 = d[0]
	}
	sort.Strings(set)
	kind := "cli-c14"
	if layout != "" {
		kind = "cli-c14-layout"
	}
	rf := &ReplayFile{Property: "C14", Kind: kind, RunSeed: c.Seed, Case: caseIdx, DSL: small.Render(), Target: victim, History: set, CLI: wb, CLIRef: wa,
		Expect: map[string]any{"layout": layout},
		Original:  map[string]any{"packets": len(prog.Pkts), "fields": prog.fieldCount(), "targets": ts},
		Minimised: map[string]any{"packets": len(small.Pkts), "fields": small.fieldCount(), "targets": set, "shrink_evaluations": used}}
	lay := ""
	if layout != "" {
		lay = " in layout " + layout
	}
	c.report("C14|cli|"+victim+"|with:"+strings.Join(set, "+")+"|"+layout, fmt.Sprintf("CLI: the tree written for target %s differs between requesting it alone and requesting %v%s: %q vs %q", victim, set, lay, clip(l0, 100), clip(l1, 100)), d, rf)
}

const c14Rule = "Seeded generation of well-formed PacketDSL programs; per program one reference world (each target alone on a fresh parse) and histories = ordered subsets of the six generators applied to ONE parsed model (all 1956 for the first programs, CLI order + all 30 ordered pairs + 30 random histories for the rest), map order and clock pinned; plus CLI worlds (one OS process per subset of output flags). A case is distinct by (program, history) and non-trivial when the history has >= 2 steps (only then can one generator interfere with another)."

var c14Assumptions = []string{
	"the model fingerprint walks exported fields only (pointer identity replaced by first-visit numbering, maps in sorted key order); state hidden in unexported fields is covered by invariant I2 only",
	"histories interleave generators at whole-generator granularity: the repository has no goroutines, a generator runs to completion before the next starts (as in cmd/compile.go)",
	"the seam rewriter is faithful (validated against the unrewritten binary by the C13 thorough tier)",
}

package main

// Wire types shared with the injected simulator runtime (_inject/simrt) and
// world runner (_inject/verifsim). Kept in sync by hand; JSON tags are the
// contract.

type Choice struct {
	Kind   string `json:"k"`
	Site   string `json:"s"`
	N      int    `json:"n"`
	Chosen uint64 `json:"c"`
}

type SchedConfig struct {
	Seed         uint64   `json:"seed"`
	MapMode      string   `json:"map_mode"`
	OneSite      string   `json:"one_site,omitempty"`
	OneSiteMode  string   `json:"one_site_mode,omitempty"`
	ClockMode    string   `json:"clock_mode"`
	ClockBase    int64    `json:"clock_base"`
	IdentMode    string   `json:"ident_mode"`
	EnvMode      string   `json:"env_mode,omitempty"`
	Bubble       bool     `json:"bubble,omitempty"`
	GoMode       string   `json:"go_mode,omitempty"`
	PreemptEvery int      `json:"preempt_every,omitempty"`
	Replay       []Choice `json:"replay,omitempty"`
	UseReplay    bool     `json:"use_replay,omitempty"`
	Sandbox      string   `json:"sandbox,omitempty"`
	FaultOpIndex int      `json:"fault_op_index,omitempty"`
	FaultErrno   string   `json:"fault_errno,omitempty"`
	StallOp      int      `json:"stall_op,omitempty"`  // fault: the machine stalls before the StallOp-th file operation ...
	StallSec     int      `json:"stall_sec,omitempty"` // ... for this many simulated seconds (bubble clock)
	DenyCreate   bool     `json:"deny_create,omitempty"` // fault: no new directory entries (EACCES), existing files stay writable
	Out          string   `json:"out,omitempty"`
	// ProcEnv: variables of the PROCESS the world runs in (garbage-collector
	// pacing: GOGC, GOMEMLIMIT). A world that carries them runs in a fresh
	// worker process started with them; the simulator runtime ignores them.
	ProcEnv []string `json:"proc_env,omitempty"`
}

type SiteStat struct {
	Execs       int `json:"execs"`
	Execs2      int `json:"execs_ge2"`
	NonIdentity int `json:"non_identity"`
	MaxKeys     int `json:"max_keys"`
}

type Op struct {
	Op      string `json:"op"`
	Path    string `json:"path"`
	Path2   string `json:"path2,omitempty"`
	Real    string `json:"real,omitempty"`
	Real2   string `json:"real2,omitempty"`
	Write   bool   `json:"write"`
	Flags   int    `json:"flags,omitempty"`
	Escaped bool   `json:"escaped,omitempty"`
	Fault   string `json:"fault,omitempty"`
	Err     string `json:"err,omitempty"`
}

type Record struct {
	Choices    []Choice            `json:"choices"`
	Sites      map[string]SiteStat `json:"sites"`
	Ops        []Op                `json:"ops"`
	ClockCalls int                 `json:"clock_calls"`
	ClockMin   int64               `json:"clock_min"`
	ClockMax   int64               `json:"clock_max"`
	Fired      map[string]int      `json:"fired"`
	Unseamed   []string            `json:"unseamed,omitempty"`
	ExitCode   int                 `json:"exit_code"`
}

type Req struct {
	ID        int         `json:"id"`
	Op        string      `json:"op"`
	DSL       []byte      `json:"dsl"`
	History   []string    `json:"history,omitempty"`
	Fresh     bool        `json:"fresh,omitempty"`
	Sched     SchedConfig `json:"sched"`
	WantBytes bool        `json:"want_bytes,omitempty"`
}

type FileOut struct {
	Sha  string `json:"sha"`
	Len  int    `json:"len"`
	Data []byte `json:"data,omitempty"`
}

type Step struct {
	Target string             `json:"target"`
	Files  map[string]FileOut `json:"files,omitempty"`
	Err    string             `json:"err,omitempty"`
	Panic  string             `json:"panic,omitempty"`
	FP     string             `json:"fp,omitempty"`
	FPText string             `json:"fp_text,omitempty"`
}

type Resp struct {
	ID         int      `json:"id"`
	ParseErr   string   `json:"parse_err,omitempty"`
	ParsePanic string   `json:"parse_panic,omitempty"`
	SemErrs    []string `json:"sem_errs,omitempty"`
	FP0        string   `json:"fp0,omitempty"`
	FP0Text    string   `json:"fp0_text,omitempty"`
	Steps      []Step   `json:"steps,omitempty"`
	FormatOut  []byte   `json:"format_out,omitempty"`
	FormatErr  string   `json:"format_err,omitempty"`
	FormatOK   bool     `json:"format_ok,omitempty"`
	Rec        Record   `json:"rec"`

	// set by the pool, not by the worker
	Crashed  string `json:"crashed,omitempty"`
	TimedOut bool   `json:"timed_out,omitempty"`
}

const DefaultClockBase int64 = 1781524800 * 1e9

var AllTargets = []string{"lua", "rust", "go", "java", "python", "cpp"}

// flag letters of the compile command, in the order of AllTargets
var TargetFlagShort = map[string]string{"lua": "-l", "rust": "-r", "go": "-g", "java": "-j", "python": "-p", "cpp": "-c"}
var TargetFlagLong = map[string]string{"lua": "--lua_output", "rust": "--rs_output", "go": "--go_output", "java": "--java_output", "python": "--py_output", "cpp": "--cpp_output"}

// ---- PRNG: splitmix64-seeded xoshiro256** (same generator as simrt) ----

type Rng struct{ s [4]uint64 }

func splitmix(x *uint64) uint64 {
	*x += 0x9e3779b97f4a7c15
	z := *x
	z = (z ^ (z >> 30)) * 0xbf58476d1ce4e5b9
	z = (z ^ (z >> 27)) * 0x94d049bb133111eb
	return z ^ (z >> 31)
}

func NewRng(seed uint64) *Rng {
	var r Rng
	x := seed
	for i := range r.s {
		r.s[i] = splitmix(&x)
	}
	return &r
}

func rotl(x uint64, k uint) uint64 { return (x << k) | (x >> (64 - k)) }

func (r *Rng) Next() uint64 {
	res := rotl(r.s[1]*5, 7) * 9
	t := r.s[1] << 17
	r.s[2] ^= r.s[0]
	r.s[3] ^= r.s[1]
	r.s[1] ^= r.s[2]
	r.s[0] ^= r.s[3]
	r.s[2] ^= t
	r.s[3] = rotl(r.s[3], 45)
	return res
}

func (r *Rng) Intn(n int) int {
	if n <= 1 {
		return 0
	}
	return int(r.Next() % uint64(n))
}

func (r *Rng) Chance(num, den int) bool { return r.Intn(den) < num }

func (r *Rng) Pick(xs []string) string { return xs[r.Intn(len(xs))] }

// SubSeed derives the seed of case i of stream tag from the run seed.
func SubSeed(seed uint64, tag string, i int) uint64 {
	x := seed
	h := splitmix(&x)
	for _, c := range []byte(tag) {
		h = (h ^ uint64(c)) * 0x100000001b3
	}
	h ^= uint64(i) * 0x9e3779b97f4a7c15
	y := h
	return splitmix(&y)
}

package main

import (
	"regexp"
	"strings"
)

// Inputs for the formatter entry points: well-formed programs with arbitrary
// layout and comment noise, syntactically invalid texts derived from them
// (token deletion / insertion / duplication / truncation), and plain garbage.

var tokRe = regexp.MustCompile("`[^`]*`|\"(?:[^\"\\\\\\r\\n]|\\\\.)*\"|'(?:\\\\x00|.)'|@lengthOf\\(|@calculatedFrom\\(|@tag\\(|@leftPad|@rightPad|zchar\\[|char\\[\\]|char\\[|[A-Za-z_][A-Za-z_0-9]*|[0-9]+|//[^\\n]*|\\S")

func tokenize(s string) []string { return tokRe.FindAllString(s, -1) }

func isWord(t string) bool {
	if t == "" {
		return false
	}
	c := t[len(t)-1]
	return c == '_' || c >= '0' && c <= '9' || c >= 'a' && c <= 'z' || c >= 'A' && c <= 'Z'
}

func startsWord(t string) bool {
	if t == "" {
		return false
	}
	c := t[0]
	return c == '_' || c >= '0' && c <= '9' || c >= 'a' && c <= 'z' || c >= 'A' && c <= 'Z'
}

var commentPool = []string{"// default pad is '0'", "// say \"hi\"", "// it's", "// \"", "// '","// note", "// 注释", "//", "// a, b { c }", "//// x", "// trailing ; stuff", "// 100% done", "// %s %d", "// $x `tick` \"q\"", "// <tag> &amp; {{.}}", "//\ttab"}

func joinNoisy(toks []string, r *Rng, noise int) string { return joinLayout(toks, r, noise, true) }

// joinLayout lays a token stream out; with comments=false only white space
// varies (the token stream, comments included, stays the same).
func joinLayout(toks []string, r *Rng, noise int, comments bool) string {
	var b strings.Builder
	for i, t := range toks {
		b.WriteString(t)
		if strings.HasPrefix(t, "//") {
			b.WriteString("\n")
			continue
		}
		if i == len(toks)-1 {
			break
		}
		next := toks[i+1]
		if !comments {
			// white-space-only layouts: a separator between every two tokens,
			// only its kind varies (blank, tab, line break, several), so that
			// all such layouts of one token stream have the same word sequence
			b.WriteString(r.Pick([]string{" ", " ", "\n", "\t", "\r\n", "  ", "\n\n", "\n    "}))
			continue
		}
		need := isWord(t) && startsWord(next)
		// "char[" / "zchar[" DIGITS "]" and attribute heads must stay glued only
		// as far as the lexer requires; whitespace between separate tokens is free
		switch x := r.Intn(10 + noise); {
		case x < 5:
			b.WriteString(" ")
		case x < 7:
			b.WriteString("\n")
		case x < 8:
			if need {
				b.WriteString(" ")
			}
		case x < 9:
			b.WriteString("  \t ")
		case x < 10:
			b.WriteString("\n\n    ")
		default:
			k := r.Intn(4)
			if !comments && (k == 0 || k == 2) {
				k = 1
			}
			switch k {
			case 0:
				b.WriteString(" " + r.Pick(commentPool) + "\n")
			case 1:
				b.WriteString("\r\n")
			case 2:
				b.WriteString("\n" + r.Pick(commentPool) + "\n" + r.Pick(commentPool) + "\n")
			default:
				b.WriteString("\t")
			}
		}
	}
	if r.Chance(1, 2) {
		b.WriteString("\n")
	}
	if comments && r.Chance(1, 4) {
		b.WriteString(r.Pick(commentPool))
	}
	return b.String()
}

var garbage = []string{"$", "}", "{", "{{", "@", "@foo(", "'", "\"", "`", ";;", "=", "packet", "root root", "match", "[", "]", "0x", "\\", "\xff\xfe", "é", "repeat repeat", ",,"}

// FormatInput produces one input text.
func FormatInput(seed uint64) []byte { return FormatInputLayout(seed, 0) }

// FormatInputLayout decorates formatInputLayout: now and then a UTF-8 byte
// order mark in front (what Windows editors save), with valid and invalid
// texts alike.
func FormatInputLayout(seed uint64, layout int) []byte {
	in := formatInputLayout(seed, layout)
	r := NewRng(SubSeed(seed, "bom", 0))
	if r.Chance(1, 10) {
		return append([]byte("\xef\xbb\xbf"), in...)
	}
	return in
}

// FormatInputLayout: the same token stream as FormatInput(seed) for every
// layout number; layout 0 is FormatInput itself, other layouts differ from it
// in white space only (where comments sit relative to line breaks included).
func formatInputLayout(seed uint64, layout int) []byte {
	r := NewRng(seed)
	switch x := r.Intn(100); {
	case x < 3:
		return []byte(r.Pick([]string{" ", "\n", "// only a comment", "options {}", "packet P {}", "root packet R { }", "MetaData M { }", "x", "packet", "{", "}"}))
	case x < 6:
		// plain garbage
		n := 1 + r.Intn(12)
		var b strings.Builder
		for i := 0; i < n; i++ {
			b.WriteString(r.Pick(garbage))
			if r.Chance(1, 2) {
				b.WriteString(" ")
			}
		}
		return []byte(b.String())
	}
	prog := GenProg(SubSeed(seed, "prog", 0))
	text := prog.Render()
	if r.Chance(1, 25) {
		// a large input (tens of kilobytes): several programs back to back;
		// the formatter does not mind duplicate names, buffers and pipes do
		// mind sizes
		var b strings.Builder
		b.WriteString(text)
		n := 8 + r.Intn(25)
		for k := 1; k <= n && b.Len() < 90000; k++ {
			b.WriteString(GenProg(SubSeed(seed, "prog", k)).Render())
		}
		text = b.String()
	}
	if r.Chance(1, 6) {
		// constructs the compiler rejects but the formatter accepts
		text += "\npacket " + r.Pick(words) + "Extra {\n    Unknown" + r.Pick(words) + " ref,\n    @leftPad('0')\n    char[3] padded,\n}\n"
	}
	toks := tokenize(text)
	if r.Chance(1, 3) && len(toks) > 0 {
		// comments in odd places
		for k := 0; k < 1+r.Intn(4); k++ {
			pos := r.Intn(len(toks) + 1)
			toks = append(toks[:pos], append([]string{r.Pick(commentPool)}, toks[pos:]...)...)
		}
	}
	if r.Chance(2, 5) && len(toks) > 2 {
		// mutate into (probably) invalid input
		nm := 1 + r.Intn(2)
		for k := 0; k < nm; k++ {
			pos := r.Intn(len(toks))
			switch r.Intn(6) {
			case 0:
				toks = append(toks[:pos], toks[pos+1:]...)
			case 1:
				toks = append(toks[:pos], append([]string{toks[pos]}, toks[pos:]...)...)
			case 2:
				toks = append(toks[:pos], append([]string{r.Pick(garbage)}, toks[pos:]...)...)
			case 3:
				toks = toks[:pos+1]
			case 4:
				j := r.Intn(len(toks))
				toks[pos], toks[j] = toks[j], toks[pos]
			default:
				toks[pos] = r.Pick(garbage)
			}
			if len(toks) == 0 {
				toks = []string{"}"}
			}
		}
	}
	if r.Chance(1, 8) {
		// legacy-encoded (GBK / Latin-1) text inside descriptions, strings and
		// comments: runs of bytes that are not valid UTF-8
		runs := []string{"\xd6\xd0\xce\xc4", "\xc3\x28", "\xff", "\xa0\xa1", "caf\xe9", "\xfe\xff\xfe", "\xe6\xb6", "\xf0\x9f\x98"}
		for k := 0; k < 1+r.Intn(3); k++ {
			pos := r.Intn(len(toks))
			t := toks[pos]
			switch {
			case len(t) >= 2 && t[0] == '`':
				toks[pos] = "`" + r.Pick(runs) + t[1:]
			case len(t) >= 2 && t[0] == '"':
				toks[pos] = "\"" + r.Pick(runs) + t[1:]
			case strings.HasPrefix(t, "//"):
				toks[pos] = t + " " + r.Pick(runs)
			default:
				toks = append(toks[:pos], append([]string{"// " + r.Pick(runs)}, toks[pos:]...)...)
			}
		}
	}
	if layout != 0 {
		lr := NewRng(SubSeed(seed, "layout", layout))
		return []byte(joinLayout(toks, lr, 1+lr.Intn(4), false))
	}
	if r.Chance(1, 3) {
		// a one-line text (what people paste after -d): only possible when no
		// comment would swallow the rest of the line
		hasComment := false
		for _, t := range toks {
			if strings.HasPrefix(t, "//") {
				hasComment = true
			}
		}
		if !hasComment {
			return []byte(strings.Join(toks, " "))
		}
	}
	return []byte(joinNoisy(toks, r, 1+r.Intn(4)))
}

package main

import (
	"bytes"
	"crypto/sha256"
	"encoding/hex"
	"encoding/json"
	"fmt"
	"os"
	"os/exec"
	"path/filepath"
	"sort"
	"strings"
	"sync/atomic"
	"syscall"
	"time"
)

// A CLI world is one OS process of the (rewritten or real) fin-protoc binary
// over a private sandbox directory: the durable state is the directory tree,
// everything else (cobra flag globals, ANTLR caches) starts cold.

type DiskEntry struct {
	Path   string `json:"path"` // relative to the sandbox root
	Kind   string `json:"kind"` // file | dir | symlink
	Data   []byte `json:"data,omitempty"`
	Target string `json:"target,omitempty"` // symlink target (relative)
	Mode   uint32 `json:"mode,omitempty"`
	AgeSec int    `json:"age_sec,omitempty"` // modification time = world start minus this many seconds
	MtimeUnix int64 `json:"mtime_unix,omitempty"` // absolute modification time (seconds), wins over AgeSec
	Stale  bool   `json:"stale,omitempty"`   // left over from an earlier run (may be dropped when minimising)
}

type PreStep struct {
	Argv  []string    `json:"argv"`
	After []DiskEntry `json:"after,omitempty"` // files (re)written after the step (e.g. the DSL edited in place)
}

type CLIWorld struct {
	Argv  []string    `json:"argv"`  // after the program name; "{SB}" is replaced by the sandbox root
	Cwd   string      `json:"cwd"`   // relative to the sandbox root
	Disk0 []DiskEntry `json:"disk0"` // initial durable state
	Sched SchedConfig `json:"sched"`
	Real  bool        `json:"real,omitempty"` // run the unrewritten binary (no simulator record)
	// Pre: earlier invocations in the SAME sandbox (each its own process): the
	// directory tree is the durable state that survives from one run to the next.
	Pre []PreStep `json:"pre,omitempty"`
	// NoFile limits the number of open file descriptors of the process (0 = unlimited).
	NoFile int `json:"nofile,omitempty"`
	StdoutKind string `json:"stdout_kind,omitempty"` // "" = pipe, "file" = a regular file outside the sandbox, "devfull" = /dev/full (every write fails with ENOSPC), "pty" = a pseudo terminal in raw mode
	Env   []string    `json:"env,omitempty"`
}

type TreeEntry struct {
	Kind  string `json:"kind"`
	Sha   string `json:"sha,omitempty"`
	Size  int64  `json:"size,omitempty"`
	Mode  uint32 `json:"mode,omitempty"`
	Ino   uint64 `json:"ino,omitempty"`
	MtimeNs int64 `json:"mtime_ns,omitempty"`
	Target string `json:"target,omitempty"`
	Data  []byte `json:"-"`
}

type CLIOutcome struct {
	Exit     int
	Stdout   []byte
	Stderr   []byte
	Before   map[string]TreeEntry
	After    map[string]TreeEntry
	Rec      Record
	HasRec   bool
	TimedOut bool
	Root     string
	WallMs   float64
}

var sandboxCounter int64

func snapshot(root string, withData bool) (map[string]TreeEntry, error) {
	out := map[string]TreeEntry{}
	err := filepath.Walk(root, func(p string, fi os.FileInfo, err error) error {
		if err != nil {
			return err
		}
		rel, _ := filepath.Rel(root, p)
		if rel == "." {
			return nil
		}
		e := TreeEntry{Mode: uint32(fi.Mode().Perm()), MtimeNs: fi.ModTime().UnixNano()}
		if st, ok := fi.Sys().(*syscall.Stat_t); ok {
			e.Ino = st.Ino
		}
		switch {
		case fi.Mode()&os.ModeSymlink != 0:
			e.Kind = "symlink"
			e.Target, _ = os.Readlink(p)
		case fi.IsDir():
			e.Kind = "dir"
		case fi.Mode()&os.ModeNamedPipe != 0:
			e.Kind = "fifo"
		default:
			e.Kind = "file"
			data, err := os.ReadFile(p)
			if err != nil {
				return err
			}
			h := sha256.Sum256(data)
			e.Sha = hex.EncodeToString(h[:])
			e.Size = int64(len(data))
			if withData {
				e.Data = data
			}
		}
		out[rel] = e
		return nil
	})
	return out, err
}

func subst(s, root string) string { return strings.ReplaceAll(s, "{SB}", root) }

// RunCLI executes one CLI world.
func (sc *Scratch) RunCLI(w *CLIWorld) (*CLIOutcome, error) {
	id := atomic.AddInt64(&sandboxCounter, 1)
	base := filepath.Join(sc.Work, fmt.Sprintf("w%d", id))
	root := filepath.Join(base, "sb")
	if err := os.MkdirAll(root, 0o755); err != nil {
		return nil, infraf("sandbox: %v", err)
	}
	defer os.RemoveAll(base)
	type fifoFeed struct {
		path string
		data []byte
	}
	var fifos []fifoFeed
	materialise := func(entries []DiskEntry) error {
		for _, d := range entries {
			p := filepath.Join(root, d.Path)
			switch d.Kind {
			case "dir":
				if err := os.MkdirAll(p, 0o755); err != nil {
					return infraf("disk0: %v", err)
				}
			case "symlink":
				_ = os.MkdirAll(filepath.Dir(p), 0o755)
				if err := os.Symlink(d.Target, p); err != nil {
					return infraf("disk0: %v", err)
				}
			case "fifo":
				// a named pipe fed by the harness (process substitution, /dev/stdin style input)
				_ = os.MkdirAll(filepath.Dir(p), 0o755)
				if err := syscall.Mkfifo(p, 0o644); err != nil {
					return infraf("disk0 fifo: %v", err)
				}
				fifos = append(fifos, fifoFeed{p, d.Data})
			default:
				_ = os.MkdirAll(filepath.Dir(p), 0o755)
				mode := os.FileMode(0o644)
				if d.Mode != 0 {
					mode = os.FileMode(d.Mode)
				}
				if err := os.WriteFile(p, d.Data, mode); err != nil {
					return infraf("disk0: %v", err)
				}
				if d.Mode != 0 {
					_ = os.Chmod(p, mode)
				}
			}
		}
		for _, d := range entries {
			if d.Kind == "symlink" {
				continue
			}
			if d.MtimeUnix != 0 {
				t := time.Unix(d.MtimeUnix, 0)
				_ = os.Chtimes(filepath.Join(root, d.Path), t, t)
			} else if d.AgeSec != 0 {
				t := time.Now().Add(-time.Duration(d.AgeSec) * time.Second)
				_ = os.Chtimes(filepath.Join(root, d.Path), t, t)
			}
		}
		return nil
	}
	if err := materialise(w.Disk0); err != nil {
		return nil, err
	}
	cwd := filepath.Join(root, w.Cwd)
	if err := os.MkdirAll(cwd, 0o755); err != nil {
		return nil, infraf("sandbox cwd: %v", err)
	}
	for _, ff := range fifos {
		go func(ff fifoFeed) {
			// blocks until the program opens the pipe for reading
			f, err := os.OpenFile(ff.path, os.O_WRONLY, 0)
			if err != nil {
				return
			}
			// the producer writes in pieces with pauses, as a slow upstream
			// command would: a reader must read until end of file
			third := len(ff.data) / 3
			if third > 0 {
				_, _ = f.Write(ff.data[:third])
				time.Sleep(15 * time.Millisecond)
				_, _ = f.Write(ff.data[third : 2*third])
				time.Sleep(15 * time.Millisecond)
				_, _ = f.Write(ff.data[2*third:])
			} else {
				_, _ = f.Write(ff.data)
			}
			f.Close()
		}(ff)
	}
	defer func() {
		// unblock feeders whose pipe was never opened
		for _, ff := range fifos {
			if f, err := os.OpenFile(ff.path, os.O_RDONLY|syscall.O_NONBLOCK, 0); err == nil {
				f.Close()
			}
		}
	}()
	before, err := snapshot(root, true)
	if err != nil {
		return nil, infraf("snapshot: %v", err)
	}
	argv := make([]string, len(w.Argv))
	for i, a := range w.Argv {
		argv[i] = subst(a, root)
	}
	bin := sc.SimCLI
	env := os.Environ()
	for _, e := range w.Env {
		env = append(env, subst(e, root))
	}
	recPath := filepath.Join(base, "record.json")
	if w.Real {
		bin = sc.RealCLI
	} else {
		cfg := w.Sched
		cfg.Sandbox = root
		cfg.Out = recPath
		cfgPath := filepath.Join(base, "world.json")
		if err := os.WriteFile(cfgPath, mustJSON(cfg), 0o644); err != nil {
			return nil, infraf("world config: %v", err)
		}
		env = append(env, "VERIF_WORLD="+cfgPath)
	}
	mkCmd := func(args []string) *exec.Cmd {
		if w.NoFile > 0 {
			// a tight descriptor limit for the process (and only for it)
			sh := fmt.Sprintf("ulimit -n %d; exec \"$0\" \"$@\"", w.NoFile)
			return exec.Command("/bin/sh", append([]string{"-c", sh, bin}, args...)...)
		}
		return exec.Command(bin, args...)
	}
	// earlier invocations over the same durable state
	for _, ps := range w.Pre {
		pargv := make([]string, len(ps.Argv))
		for i, a := range ps.Argv {
			pargv[i] = subst(a, root)
		}
		pc := mkCmd(pargv)
		pc.Dir = cwd
		penv := env
		if !w.Real {
			// pre-steps run under the same schedule but leave no record
			pcfg := w.Sched
			pcfg.Sandbox = root
			pcfgPath := filepath.Join(base, "pre-world.json")
			_ = os.WriteFile(pcfgPath, mustJSON(pcfg), 0o644)
			penv = append(append([]string{}, env[:len(env)-1]...), "VERIF_WORLD="+pcfgPath)
		}
		pc.Env = penv
		pdone := make(chan error, 1)
		if err := pc.Start(); err != nil {
			return nil, infraf("pre-step: %v", err)
		}
		go func() { pdone <- pc.Wait() }()
		select {
		case <-pdone:
		case <-time.After(worldTimeout):
			_ = pc.Process.Kill()
			<-pdone
		}
		if err := materialise(ps.After); err != nil {
			return nil, err
		}
	}
	if len(w.Pre) > 0 {
		if before, err = snapshot(root, true); err != nil {
			return nil, infraf("snapshot: %v", err)
		}
	}
	cmd := mkCmd(argv)
	cmd.Dir = cwd
	cmd.Env = env
	var so, se bytes.Buffer
	cmd.Stdout = &so
	cmd.Stderr = &se
	var outFile *os.File
	var ptyMaster *os.File
	var ptyData chan []byte
	if w.StdoutKind == "devfull" {
		df, err := os.OpenFile("/dev/full", os.O_WRONLY, 0)
		if err != nil {
			return nil, infraf("/dev/full: %v", err)
		}
		defer df.Close()
		cmd.Stdout = df
	}
	if w.StdoutKind == "pty" {
		m, sl, err := openPty()
		if err != nil {
			// no pseudo terminals in this sandbox: fall back to a pipe
			w.StdoutKind = ""
			goto noPty
		}
		ptyMaster = m
		cmd.Stdout = sl
		defer sl.Close()
		defer m.Close()
		ptyData = make(chan []byte, 1)
		go func() {
			var acc []byte
			buf := make([]byte, 65536)
			for {
				n, err := m.Read(buf)
				acc = append(acc, buf[:n]...)
				if err != nil {
					break
				}
			}
			ptyData <- acc
		}()
	}
noPty:
	if w.StdoutKind == "file" {
		if outFile, err = os.Create(filepath.Join(base, "stdout.txt")); err != nil {
			return nil, infraf("stdout file: %v", err)
		}
		defer outFile.Close()
		cmd.Stdout = outFile
	}
	t0 := time.Now()
	if err := cmd.Start(); err != nil {
		return nil, infraf("start %s: %v", bin, err)
	}
	done := make(chan error, 1)
	go func() { done <- cmd.Wait() }()
	out := &CLIOutcome{Before: before, Root: root}
	select {
	case err := <-done:
		if err != nil {
			if ee, ok := err.(*exec.ExitError); ok {
				out.Exit = ee.ExitCode()
			} else {
				return nil, infraf("wait: %v", err)
			}
		}
	case <-time.After(func() time.Duration {
		if !w.Real && w.Sched.Bubble {
			return 20 * time.Second
		}
		return worldTimeout
	}()):
		_ = cmd.Process.Kill()
		<-done
		out.TimedOut = true
		if !w.Real && w.Sched.Bubble {
			noteBubbleStall()
		}
	}
	out.WallMs = float64(time.Since(t0).Microseconds()) / 1000
	out.Stdout, out.Stderr = so.Bytes(), se.Bytes()
	if outFile != nil {
		if data, err := os.ReadFile(filepath.Join(base, "stdout.txt")); err == nil {
			out.Stdout = data
		}
	}
	if ptyMaster != nil {
		// closing our copy of the slave end makes the master read return EIO once drained
		if sl, ok := cmd.Stdout.(*os.File); ok {
			sl.Close()
		}
		select {
		case data := <-ptyData:
			out.Stdout = data
		case <-time.After(5 * time.Second):
			ptyMaster.Close()
			out.Stdout = <-ptyData
		}
	}
	if out.After, err = snapshot(root, true); err != nil {
		return nil, infraf("snapshot: %v", err)
	}
	if !w.Real {
		if data, err := os.ReadFile(recPath); err == nil {
			if json.Unmarshal(data, &out.Rec) == nil {
				out.HasRec = true
				// make op paths sandbox-relative for comparison and replay files
				for i := range out.Rec.Ops {
					out.Rec.Ops[i].Path = relTo(root, out.Rec.Ops[i].Path)
					if out.Rec.Ops[i].Real != "" {
						out.Rec.Ops[i].Real = relTo(root, out.Rec.Ops[i].Real)
					}
					if out.Rec.Ops[i].Real2 != "" {
						out.Rec.Ops[i].Real2 = relTo(root, out.Rec.Ops[i].Real2)
					}
					if out.Rec.Ops[i].Path2 != "" {
						out.Rec.Ops[i].Path2 = relTo(root, out.Rec.Ops[i].Path2)
					}
				}
			}
		}
	}
	return out, nil
}

func relTo(root, p string) string {
	if p == root {
		return "."
	}
	if strings.HasPrefix(p, root+"/") {
		return p[len(root)+1:]
	}
	return "OUTSIDE:" + p
}

// changed returns the sandbox-relative paths created, modified or removed.
func (o *CLIOutcome) changed() (created, modified, removed []string) {
	for p, a := range o.After {
		b, ok := o.Before[p]
		if !ok {
			created = append(created, p)
			continue
		}
		if a.Kind != b.Kind || a.Sha != b.Sha || a.Target != b.Target || a.Mode != b.Mode {
			modified = append(modified, p)
		}
	}
	for p := range o.Before {
		if _, ok := o.After[p]; !ok {
			removed = append(removed, p)
		}
	}
	sort.Strings(created)
	sort.Strings(modified)
	sort.Strings(removed)
	return
}

// subtree returns the files (not dirs) under dir (sandbox-relative), keyed by
// the path relative to dir.
func (o *CLIOutcome) subtree(dir string) map[string]TreeEntry {
	out := map[string]TreeEntry{}
	pre := strings.TrimSuffix(dir, "/") + "/"
	for p, e := range o.After {
		if strings.HasPrefix(p, pre) && e.Kind != "dir" {
			out[p[len(pre):]] = e
		}
	}
	return out
}

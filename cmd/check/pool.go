package main

import (
	"bufio"
	"bytes"
	"encoding/json"
	"fmt"
	"os"
	"os/exec"
	"runtime"
	"strings"
	"sync"
	"sync/atomic"
	"time"
)

// worker is one simworker subprocess executing library-level worlds.
type worker struct {
	bin    string
	env    []string
	cmd    *exec.Cmd
	in     *bufio.Writer
	out    *bufio.Reader
	stderr *bytes.Buffer
	inPipe interface{ Close() error }
}

func (w *worker) start() error {
	w.cmd = exec.Command(w.bin)
	w.cmd.Env = w.env
	ip, err := w.cmd.StdinPipe()
	if err != nil {
		return err
	}
	op, err := w.cmd.StdoutPipe()
	if err != nil {
		return err
	}
	w.stderr = &bytes.Buffer{}
	w.cmd.Stderr = w.stderr
	if err := w.cmd.Start(); err != nil {
		return err
	}
	w.in = bufio.NewWriterSize(ip, 1<<20)
	w.inPipe = ip
	w.out = bufio.NewReaderSize(op, 1<<20)
	return nil
}

func (w *worker) stop() {
	if w.cmd == nil {
		return
	}
	if w.inPipe != nil {
		_ = w.inPipe.Close()
	}
	done := make(chan struct{})
	go func() { _ = w.cmd.Wait(); close(done) }()
	select {
	case <-done:
	case <-time.After(2 * time.Second):
		_ = w.cmd.Process.Kill()
		<-done
	}
	w.cmd = nil
}

func (w *worker) kill() {
	if w.cmd != nil {
		_ = w.cmd.Process.Kill()
		_ = w.cmd.Wait()
		w.cmd = nil
	}
}

const worldTimeout = 120 * time.Second

// bubble worlds that stall (a lock or hand-off the goroutine seam does not
// own) are cut short; after a few of them the run falls back to native
// goroutine scheduling, covered by the uncontrolled process dimension only.
var bubbleStalls int64

func currentWorldTimeout(req *Req) time.Duration {
	if req != nil && req.Sched.Bubble {
		return 20 * time.Second
	}
	return worldTimeout
}

func noteBubbleStall() {
	if atomic.AddInt64(&bubbleStalls, 1) == 4 {
		bubbleOn = false
		uncontrolled++
		fmt.Fprintln(os.Stderr, "WARNING: worlds stall inside the synctest bubble (a blocking primitive the goroutine seam does not own); falling back to native goroutine scheduling for the rest of the run")
	}
}

// do executes one world. Infrastructure trouble comes back as err; a crash of
// the repo code inside the worker (fatal error, stack overflow) or a timeout
// is an outcome.
func (w *worker) do(req *Req) (*Resp, error) {
	if w.cmd == nil {
		if err := w.start(); err != nil {
			return nil, infraf("cannot start simworker: %v", err)
		}
	}
	line, err := json.Marshal(req)
	if err != nil {
		return nil, infraf("marshal request: %v", err)
	}
	type res struct {
		line []byte
		err  error
	}
	ch := make(chan res, 1)
	go func() {
		if _, err := w.in.Write(append(line, '\n')); err != nil {
			ch <- res{nil, err}
			return
		}
		if err := w.in.Flush(); err != nil {
			ch <- res{nil, err}
			return
		}
		l, err := w.out.ReadBytes('\n')
		ch <- res{l, err}
	}()
	select {
	case r := <-ch:
		if r.err != nil || len(r.line) == 0 {
			tail := w.stderr.String()
			w.kill()
			if len(tail) > 600 {
				tail = tail[:600]
			}
			first := tail
			if i := strings.IndexByte(first, '\n'); i >= 0 {
				first = first[:i]
			}
			if first == "" {
				first = fmt.Sprint(r.err)
			}
			return &Resp{ID: req.ID, Crashed: first}, nil
		}
		var resp Resp
		if err := json.Unmarshal(r.line, &resp); err != nil {
			w.kill()
			return nil, infraf("bad worker response: %v", err)
		}
		return &resp, nil
	case <-time.After(currentWorldTimeout(req)):
		w.kill()
		if req.Sched.Bubble {
			noteBubbleStall()
		}
		return &Resp{ID: req.ID, TimedOut: true}, nil
	}
}

// Pool runs library-level worlds on a fixed set of worker processes.
type Pool struct {
	bin     string
	env     []string
	n       int
	workers chan *worker
	mu      sync.Mutex
	worlds  int
}

func NewPool(bin string, n int, gomaxprocs int) *Pool {
	if n <= 0 {
		n = runtime.NumCPU()
	}
	env := os.Environ()
	if gomaxprocs > 0 {
		env = append(env, fmt.Sprintf("GOMAXPROCS=%d", gomaxprocs))
	}
	p := &Pool{bin: bin, env: env, n: n, workers: make(chan *worker, n)}
	for i := 0; i < n; i++ {
		p.workers <- &worker{bin: bin, env: env}
	}
	return p
}

func (p *Pool) Close() {
	for i := 0; i < p.n; i++ {
		w := <-p.workers
		w.stop()
	}
}

// Do runs one world on any free worker.
func (p *Pool) Do(req *Req) (*Resp, error) {
	w := <-p.workers
	resp, err := w.do(req)
	p.workers <- w
	p.mu.Lock()
	p.worlds++
	p.mu.Unlock()
	return resp, err
}

func (p *Pool) Worlds() int {
	p.mu.Lock()
	defer p.mu.Unlock()
	return p.worlds
}

// DoFresh runs one world alone in a brand-new worker process (used to confirm
// candidates and to replay).
func DoFresh(bin string, req *Req, gomaxprocs int) (*Resp, error) {
	env := os.Environ()
	if gomaxprocs > 0 {
		env = append(env, fmt.Sprintf("GOMAXPROCS=%d", gomaxprocs))
	}
	env = append(env, req.Sched.ProcEnv...)
	w := &worker{bin: bin, env: env}
	defer w.stop()
	return w.do(req)
}

// ParallelFor runs f(i) for i in [0,n) on k goroutines and returns the first
// infrastructure error.
func ParallelFor(n, k int, f func(i int) error) error {
	if k <= 0 {
		k = runtime.NumCPU()
	}
	var wg sync.WaitGroup
	idx := make(chan int)
	var mu sync.Mutex
	var first error
	for g := 0; g < k; g++ {
		wg.Add(1)
		go func() {
			defer wg.Done()
			for i := range idx {
				mu.Lock()
				stop := first != nil
				mu.Unlock()
				if stop {
					continue
				}
				if err := f(i); err != nil {
					mu.Lock()
					if first == nil {
						first = err
					}
					mu.Unlock()
				}
			}
		}()
	}
	for i := 0; i < n; i++ {
		idx <- i
	}
	close(idx)
	wg.Wait()
	return first
}

// DoSession runs a sequence of worlds one after the other in ONE brand-new
// worker process (process-global state survives from one to the next).
func DoSession(bin string, reqs []*Req, gomaxprocs int) ([]*Resp, error) {
	env := os.Environ()
	if gomaxprocs > 0 {
		env = append(env, fmt.Sprintf("GOMAXPROCS=%d", gomaxprocs))
	}
	if len(reqs) > 0 {
		env = append(env, reqs[len(reqs)-1].Sched.ProcEnv...)
	}
	w := &worker{bin: bin, env: env}
	defer w.stop()
	var out []*Resp
	for _, r := range reqs {
		resp, err := w.do(r)
		if err != nil {
			return nil, err
		}
		out = append(out, resp)
		if resp.Crashed != "" || resp.TimedOut {
			break
		}
	}
	return out, nil
}

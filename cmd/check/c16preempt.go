package main

import (
	"bytes"
	"encoding/json"
	"fmt"
	"os"
	"os/exec"
	"path/filepath"
	"time"
)

// Preemptive host worlds (DESIGN.md 5, "threads inside the export"): 2-3
// simulated host threads are goroutines of ONE synctest bubble in one
// process, several of them are inside FormatPacketDslExport at the same time,
// and at every preemption point the rewriter inserted (function entries,
// statements touching package-level variables, lock acquisitions, channel
// sends) the world's scheduler decides who continues. The interleaving is a
// function of (seed, choice log) and replays exactly; the oracle is the same
// per-call refinement as in the call-granularity histories.

func preemptSched(seed uint64, every int, mode string) SchedConfig {
	return SchedConfig{Seed: seed, MapMode: "sorted", ClockMode: "pinned", ClockBase: DefaultClockBase, IdentMode: "pinned", Bubble: true, GoMode: mode, PreemptEvery: every}
}

// runHostWorld runs a host spec under an explicit world configuration and
// returns the per-call results and the world record. res == nil: the world
// stalled or deadlocked (inconclusive, never reported).
func runHostWorld(c *Ctx, spec *HostSpec, sched *SchedConfig) ([]hostResult, *Record, error) {
	dir, err := os.MkdirTemp(c.sc.Work, "hostw")
	if err != nil {
		return nil, nil, infraf("host dir: %v", err)
	}
	defer os.RemoveAll(dir)
	sp := *spec
	sp.Out = filepath.Join(dir, "out.json")
	specPath := filepath.Join(dir, "spec.json")
	if err := os.WriteFile(specPath, mustJSON(sp), 0o644); err != nil {
		return nil, nil, infraf("host spec: %v", err)
	}
	cfg := *sched
	cfg.Out = filepath.Join(dir, "record.json")
	cfgPath := filepath.Join(dir, "world.json")
	if err := os.WriteFile(cfgPath, mustJSON(cfg), 0o644); err != nil {
		return nil, nil, infraf("world config: %v", err)
	}
	cmd := exec.Command(c.sc.SimCLI)
	procs := 4
	if sp.Procs > 0 {
		procs = sp.Procs
	}
	cmd.Env = append(os.Environ(), "VERIF_HOST="+specPath, "VERIF_WORLD="+cfgPath, fmt.Sprintf("GOMAXPROCS=%d", procs))
	cmd.Dir = dir
	var se bytes.Buffer
	cmd.Stderr = &se
	if err := cmd.Start(); err != nil {
		return nil, nil, infraf("host start: %v", err)
	}
	done := make(chan error, 1)
	go func() { done <- cmd.Wait() }()
	select {
	case err := <-done:
		if err != nil {
			if ee, ok := err.(*exec.ExitError); ok && ee.ExitCode() == 98 {
				return nil, nil, nil // bubble deadlock: inconclusive
			}
			if crashLooks.MatchString(se.String()) {
				return nil, nil, &hostCrashErr{fmt.Sprintf("%v: %s", err, clip(firstCrashLine(se.String()), 300))}
			}
			return nil, nil, infraf("preemptive host process failed: %v\n%s", err, clip(se.String(), 2000))
		}
	case <-time.After(90 * time.Second):
		_ = cmd.Process.Kill()
		<-done
		return nil, nil, nil
	}
	data, err := os.ReadFile(sp.Out)
	if err != nil {
		return nil, nil, infraf("host output: %v", err)
	}
	var res []hostResult
	if err := json.Unmarshal(data, &res); err != nil {
		return nil, nil, infraf("host output parse: %v", err)
	}
	if len(res) != len(sp.Calls) {
		return nil, nil, infraf("host returned %d results for %d calls", len(res), len(sp.Calls))
	}
	var rec Record
	if data, err := os.ReadFile(cfg.Out); err == nil {
		_ = json.Unmarshal(data, &rec)
	}
	return res, &rec, nil
}

func choiceHash(cs []Choice) uint64 {
	h := uint64(1469598103934665603)
	for _, ch := range cs {
		h = (h ^ ch.Chosen ^ uint64(ch.N)<<32) * 0x100000001b3
	}
	return h
}

func c16HostPreempt(c *Ctx, pool *Pool, i int) error {
	seed := SubSeed(c.Seed, "c16pre", i)
	r := NewRng(seed)
	threads := 2 + r.Intn(2)
	ncalls := threads + r.Intn(threads*2+1)
	// a few distinct small inputs; the same text is often inside the export
	// on two threads at once (caches, pooled state)
	var inputs [][]byte
	refs := map[string]*Resp{}
	want := 1 + r.Intn(3)
	for try := 0; try < 60 && len(inputs) < want; try++ {
		in := FormatInputLayout(SubSeed(seed, "in", try), r.Intn(3))
		if bytes.Contains(in, []byte{0}) || len(in) > 2500 || len(in) == 0 {
			continue
		}
		ref, err := formatRef(pool, in)
		if err != nil {
			return err
		}
		if ref.TimedOut || ref.Crashed != "" || ref.ParsePanic != "" {
			continue
		}
		refs[string(in)] = ref
		inputs = append(inputs, in)
		// a white-space sibling of a syntactically invalid text
		if !ref.FormatOK && r.Chance(1, 2) && len(inputs) < want+1 {
			sib := append([]byte("\n\n"), bytes.TrimRight(in, "\n")...)
			if sref, err := formatRef(pool, sib); err == nil && !sref.TimedOut && sref.Crashed == "" && sref.ParsePanic == "" {
				refs[string(sib)] = sref
				inputs = append(inputs, sib)
			}
		}
	}
	if len(inputs) == 0 {
		return nil
	}
	spec := &HostSpec{Threads: threads, Preempt: true}
	if i%3 == 0 {
		spec.Procs = 1 // one processor: per-P caches (sync.Pool) are shared by all host threads
	}
	for k := 0; k < ncalls; k++ {
		spec.Calls = append(spec.Calls, HostCall{Thread: k % threads, Input: inputs[r.Intn(len(inputs))]})
	}
	every := []int{1, 2, 3, 5, 11, 30, 90, 300}[r.Intn(8)]
	mode := []string{"random", "random", "mix", "lifo"}[r.Intn(4)]
	sched := preemptSched(SubSeed(seed, "world", 0), every, mode)
	res, rec, err := runHostWorld(c, spec, &sched)
	if hc, ok := err.(*hostCrashErr); ok {
		c.candidate16PreemptCrash(i, spec, &sched, hc)
		return nil
	}
	if err != nil {
		return err
	}
	if res == nil {
		c.mu.Lock()
		c.inconclusive++
		c.mu.Unlock()
		c.ev.Count("preempt_host_worlds_stalled", 1)
		c.logf("preemptive host world %d stalled or deadlocked (threads=%d calls=%d every=%d mode=%s): inconclusive", i, threads, len(spec.Calls), every, mode)
		return nil
	}
	c.ev.Count("preempt_host_histories", 1)
	c.ev.Count("preempt_host_calls_checked", len(spec.Calls))
	c.ev.AddRecord(rec)
	c.ev.MarkDistinct(fmt.Sprintf("hostpre|%x|%x", seed, choiceHash(rec.Choices)))
	c.event(fmt.Sprintf("c16pre|%d", i), spec, res, rec.Choices)
	if i == 0 {
		c.ev.AddSample(map[string]any{"entry": "FormatPacketDslExport preemptive host world", "threads": threads, "calls": len(spec.Calls), "preempt_every": every, "go_mode": mode, "scheduler_decisions": len(rec.Choices), "preemptions": rec.Fired["preempt"]}, 8)
	}
	for k, call := range spec.Calls {
		if v := checkHostCall(refs[string(call.Input)], &res[k]); v != nil {
			c.candidate16Preempt(i, spec, &sched, rec, k, v)
			break
		}
	}
	return nil
}

// candidate16PreemptCrash: the host process of a preemptive world died on texts
// the reference formatter handles. The world is deterministic (seeded
// scheduler), so two repetitions confirm it; calls are dropped while it
// still dies.
func (c *Ctx) candidate16PreemptCrash(caseIdx int, spec *HostSpec, sched *SchedConfig, hc *hostCrashErr) {
	c.mu.Lock()
	c.candidates++
	coarse := "C16|lib|host-crash"
	if c.sigSeen["coarse:"+coarse] || c.processed >= 40 {
		c.mu.Unlock()
		return
	}
	c.sigSeen["coarse:"+coarse] = true
	c.processed++
	c.mu.Unlock()
	candMu <- struct{}{}
	defer func() { <-candMu }()
	mk := func(cs []HostCall) *HostSpec {
		return &HostSpec{Threads: spec.Threads, Calls: cs, Preempt: true, Procs: spec.Procs}
	}
	crashes := func(cs []HostCall) string {
		if len(cs) == 0 {
			return ""
		}
		_, _, err := runHostWorld(c, mk(cs), sched)
		if e, ok := err.(*hostCrashErr); ok {
			return e.msg
		}
		return ""
	}
	calls := append([]HostCall(nil), spec.Calls...)
	if crashes(calls) == "" || crashes(calls) == "" {
		c.ev.Count("unconfirmed_candidates", 1)
		c.logf("preemptive host crash (world %d: %s) did not recur twice: not reported", caseIdx, hc.msg)
		c.mu.Lock()
		delete(c.sigSeen, "coarse:"+coarse)
		c.mu.Unlock()
		return
	}
	orig := len(calls)
	for i := 0; i < len(calls) && len(calls) > 1; {
		cand := append(append([]HostCall(nil), calls[:i]...), calls[i+1:]...)
		if crashes(cand) != "" {
			calls = cand
		} else {
			i++
		}
	}
	msg := crashes(calls)
	if msg == "" {
		msg = hc.msg
	}
	rf := &ReplayFile{Property: "C16", Kind: "host-c16-preempt-crash", RunSeed: c.Seed, Case: caseIdx, Host: mk(calls), Sched: sched,
		Expect:    map[string]any{"entry": "FormatPacketDslExport", "class": "host-crash"},
		Original:  map[string]any{"calls": orig},
		Minimised: map[string]any{"calls": len(calls)}}
	c.report(coarse, fmt.Sprintf("the host process dies in a world of %d call(s) of FormatPacketDslExport on %d host threads, on texts the formatter handles (every returned string is freed exactly once, right after it was read): %s", len(calls), spec.Threads, msg), nil, rf)
}

// preemptFails runs the world and returns the first call whose result shows
// the given violation class (any class when class == "").
func preemptFails(c *Ctx, spec *HostSpec, sched *SchedConfig, class string) (int, *c16Viol, *Record) {
	res, rec, err := runHostWorld(c, spec, sched)
	if err != nil || res == nil {
		return -1, nil, nil
	}
	for k, call := range spec.Calls {
		ref, err := DoFresh(c.sc.Worker, &Req{Op: "format", DSL: call.Input, Sched: s0()}, 1)
		if err != nil || ref.TimedOut || ref.Crashed != "" || ref.ParsePanic != "" {
			continue
		}
		if v := checkHostCall(ref, &res[k]); v != nil && (class == "" || v.class == class) {
			return k, v, rec
		}
	}
	return -1, nil, rec
}

func (c *Ctx) candidate16Preempt(caseIdx int, spec *HostSpec, sched *SchedConfig, rec *Record, k int, v *c16Viol) {
	c.mu.Lock()
	c.candidates++
	coarse := "C16|lib|preempt|" + v.class
	if c.sigSeen["coarse:"+coarse] || c.sigSeen["coarse:C16|lib|"+v.class] || c.processed >= 40 {
		c.mu.Unlock()
		return
	}
	c.sigSeen["coarse:"+coarse] = true
	c.processed++
	c.mu.Unlock()
	candMu <- struct{}{}
	defer func() { <-candMu }()
	// confirm: the recorded choice log, fed back in a fresh process, fails the same way
	cur := *sched
	cur.UseReplay = true
	cur.Replay = append([]Choice(nil), rec.Choices...)
	calls := append([]HostCall(nil), spec.Calls...)
	mk := func(cs []HostCall) *HostSpec {
		return &HostSpec{Threads: spec.Threads, Calls: cs, Preempt: true, Procs: spec.Procs}
	}
	if kk, _, _ := preemptFails(c, mk(calls), &cur, v.class); kk < 0 {
		c.ev.Count("unconfirmed_candidates", 1)
		c.logf("preemptive host candidate (world %d, call %d, %s) did not replay from its choice log: not reported", caseIdx, k, v.class)
		c.mu.Lock()
		delete(c.sigSeen, "coarse:"+coarse)
		c.mu.Unlock()
		return
	}
	origCalls, origChoices := len(calls), len(cur.Replay)
	budget := 120
	// 1. is the interleaving needed at all? (all decisions 0, no preemption)
	seq := cur
	seq.Replay = nil
	seq.PreemptEvery = 0
	needsInterleaving := true
	if kk, _, _ := preemptFails(c, mk(calls), &seq, v.class); kk >= 0 {
		cur = seq
		needsInterleaving = false
	}
	budget--
	// 2. drop calls
	for i := 0; i < len(calls) && len(calls) > 1 && budget > 0; {
		cand := append(append([]HostCall(nil), calls[:i]...), calls[i+1:]...)
		budget--
		if kk, _, nrec := preemptFails(c, mk(cand), &cur, v.class); kk >= 0 {
			calls = cand
			if nrec != nil && needsInterleaving {
				cur.Replay = append([]Choice(nil), nrec.Choices...)
			}
		} else {
			i++
		}
	}
	// 3. fewer preemption points
	for needsInterleaving && budget > 0 && cur.PreemptEvery < 100000 {
		t := cur
		t.PreemptEvery *= 3
		t.UseReplay = false
		t.Replay = nil
		budget--
		kk, _, nrec := preemptFails(c, mk(calls), &t, v.class)
		if kk < 0 || nrec == nil {
			break
		}
		t.UseReplay = true
		t.Replay = append([]Choice(nil), nrec.Choices...)
		cur = t
	}
	// 4. reset decisions to 0: whole tail halves first, then one by one
	if needsInterleaving {
		for n := len(cur.Replay); n > 0 && budget > 0; n /= 2 {
			t := cur
			t.Replay = append([]Choice(nil), cur.Replay[:len(cur.Replay)-n]...)
			if len(t.Replay) == len(cur.Replay) {
				continue
			}
			budget--
			if kk, _, _ := preemptFails(c, mk(calls), &t, v.class); kk >= 0 {
				cur = t
				n = len(cur.Replay) * 2
			}
		}
		for i := len(cur.Replay) - 1; i >= 0 && budget > 0; i-- {
			if cur.Replay[i].Chosen == 0 {
				continue
			}
			t := cur
			t.Replay = append([]Choice(nil), cur.Replay...)
			t.Replay[i].Chosen = 0
			budget--
			if kk, _, _ := preemptFails(c, mk(calls), &t, v.class); kk >= 0 {
				cur = t
			}
		}
		for len(cur.Replay) > 0 && cur.Replay[len(cur.Replay)-1].Chosen == 0 {
			cur.Replay = cur.Replay[:len(cur.Replay)-1]
		}
	}
	kk, fv, _ := preemptFails(c, mk(calls), &cur, v.class)
	if kk < 0 {
		// minimisation went astray: fall back to the confirmed original
		calls = append([]HostCall(nil), spec.Calls...)
		cur = *sched
		cur.UseReplay = true
		cur.Replay = append([]Choice(nil), rec.Choices...)
		kk, fv = k, v
	}
	nonzero := 0
	for _, ch := range cur.Replay {
		if ch.Chosen != 0 {
			nonzero++
		}
	}
	rf := &ReplayFile{Property: "C16", Kind: "host-c16-preempt", RunSeed: c.Seed, Case: caseIdx, Host: mk(calls), Sched: &cur,
		Expect:    map[string]any{"entry": "FormatPacketDslExport", "class": fv.class, "call": kk, "needs_interleaving": needsInterleaving},
		Original:  map[string]any{"calls": origCalls, "decisions": origChoices},
		Minimised: map[string]any{"calls": len(calls), "decisions": len(cur.Replay), "non_default_decisions": nonzero, "preempt_every": cur.PreemptEvery}}
	how := fmt.Sprintf("with %d host threads inside the exported function at once (scheduler-chosen interleaving, %d non-default decisions, replays exactly)", spec.Threads, nonzero)
	if !needsInterleaving {
		how = "in a host history (threads taking turns, no preemption needed)"
	}
	c.report("C16|lib|preempt|"+fv.class, how+": "+fv.msg+fmt.Sprintf(" [call %d of %d, input %q]", kk+1, len(calls), clip(string(calls[kk].Input), 120)), fv.diffs, rf)
}

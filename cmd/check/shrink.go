package main

// Program minimisation: removal-first greedy reduction over the program AST,
// re-establishing referential integrity after every edit so that the
// candidate stays inside the "compiler accepts it" domain (the predicate
// re-validates that anyway).

type edit struct {
	kind       string
	a, b, c, d int
}

func (p *Prog) fixup() {
	for changed := true; changed; {
		changed = false
		metaNames := map[string]bool{}
		for _, m := range p.Metas {
			var keep []MetaDecl
			for _, d := range m.Decls {
				if d.Ref && !metaNames[d.Type] {
					changed = true
					continue
				}
				metaNames[d.Name] = true
				keep = append(keep, d)
			}
			m.Decls = keep
		}
		var km []*MetaBlock
		for _, m := range p.Metas {
			if len(m.Decls) > 0 {
				km = append(km, m)
			} else {
				changed = true
			}
		}
		p.Metas = km
		pk := map[string]bool{}
		for _, q := range p.Pkts {
			pk[q.Name] = true
		}
		for _, q := range p.Pkts {
			var fix func(fs []*Fld, top bool) []*Fld
			fix = func(fs []*Fld, top bool) []*Fld {
				names := map[string]bool{}
				for _, f := range fs {
					names[f.fieldName()] = true
				}
				var out []*Fld
				for _, f := range fs {
					switch f.Kind {
					case FObjRef:
						if !pk[f.Type] {
							changed = true
							continue
						}
					case FMetaRef:
						if !metaNames[f.Type] {
							changed = true
							continue
						}
					case FInline:
						f.Inner = fix(f.Inner, false)
						if len(f.Inner) == 0 {
							changed = true
							continue
						}
					case FMatch:
						var ps []Pair
						for _, pr := range f.Pairs {
							if pk[pr.Value] {
								ps = append(ps, pr)
							} else {
								changed = true
							}
						}
						f.Pairs = ps
						if len(ps) == 0 || !names[f.MatchKey] {
							changed = true
							continue
						}
					case FLength:
						if !names[f.Target] {
							changed = true
							continue
						}
					}
					out = append(out, f)
				}
				return out
			}
			q.Fields = fix(q.Fields, true)
		}
	}
}

func (p *Prog) edits() []edit {
	var es []edit
	for i, q := range p.Pkts {
		if !q.Root {
			es = append(es, edit{kind: "rmpkt", a: i})
		}
	}
	for i, q := range p.Pkts {
		if len(q.Fields) > 1 {
			es = append(es, edit{kind: "rmallfields", a: i})
		}
	}
	for i, q := range p.Pkts {
		for j, f := range q.Fields {
			es = append(es, edit{kind: "rmfield", a: i, b: j})
			if f.Kind == FInline {
				for k := range f.Inner {
					es = append(es, edit{kind: "rminner", a: i, b: j, c: k})
				}
			}
			if f.Kind == FMatch {
				for k, pr := range f.Pairs {
					if len(f.Pairs) > 1 {
						es = append(es, edit{kind: "rmpair", a: i, b: j, c: k})
					}
					if len(pr.Keys) > 1 {
						es = append(es, edit{kind: "onekey", a: i, b: j, c: k})
					}
				}
			}
		}
	}
	if !p.NoOptBlock {
		es = append(es, edit{kind: "rmoptblock"})
		for i := range p.Opts {
			es = append(es, edit{kind: "rmopt", a: i})
		}
	}
	for i, m := range p.Metas {
		es = append(es, edit{kind: "rmmeta", a: i})
		for j := range m.Decls {
			es = append(es, edit{kind: "rmdecl", a: i, b: j})
		}
	}
	for i, q := range p.Pkts {
		for j, f := range q.Fields {
			if len(f.Attrs) > 0 {
				es = append(es, edit{kind: "rmattrs", a: i, b: j})
			}
			if f.Repeat {
				es = append(es, edit{kind: "norepeat", a: i, b: j})
			}
			if f.Desc != "" {
				es = append(es, edit{kind: "nodesc", a: i, b: j})
			}
			if f.Size > 1 {
				es = append(es, edit{kind: "size1", a: i, b: j})
			}
		}
	}
	return es
}

func (p *Prog) apply(e edit) *Prog {
	q := p.Clone()
	rm := func(fs []*Fld, i int) []*Fld { return append(append([]*Fld{}, fs[:i]...), fs[i+1:]...) }
	switch e.kind {
	case "rmpkt":
		q.Pkts = append(append([]*Pkt{}, q.Pkts[:e.a]...), q.Pkts[e.a+1:]...)
	case "rmallfields":
		q.Pkts[e.a].Fields = nil
	case "rmfield":
		q.Pkts[e.a].Fields = rm(q.Pkts[e.a].Fields, e.b)
	case "rminner":
		f := q.Pkts[e.a].Fields[e.b]
		f.Inner = rm(f.Inner, e.c)
	case "rmpair":
		f := q.Pkts[e.a].Fields[e.b]
		f.Pairs = append(append([]Pair{}, f.Pairs[:e.c]...), f.Pairs[e.c+1:]...)
	case "onekey":
		f := q.Pkts[e.a].Fields[e.b]
		f.Pairs[e.c].Keys = f.Pairs[e.c].Keys[:1]
	case "rmoptblock":
		q.NoOptBlock = true
		q.Opts = nil
	case "rmopt":
		q.Opts = append(append([]Opt{}, q.Opts[:e.a]...), q.Opts[e.a+1:]...)
	case "rmmeta":
		q.Metas = append(append([]*MetaBlock{}, q.Metas[:e.a]...), q.Metas[e.a+1:]...)
	case "rmdecl":
		m := q.Metas[e.a]
		m.Decls = append(append([]MetaDecl{}, m.Decls[:e.b]...), m.Decls[e.b+1:]...)
	case "rmattrs":
		q.Pkts[e.a].Fields[e.b].Attrs = nil
	case "norepeat":
		q.Pkts[e.a].Fields[e.b].Repeat = false
	case "nodesc":
		q.Pkts[e.a].Fields[e.b].Desc = ""
	case "size1":
		q.Pkts[e.a].Fields[e.b].Size = 1
	}
	q.fixup()
	return q
}

func (p *Prog) size() int {
	n := len(p.Opts) + len(p.Pkts)*3
	for _, m := range p.Metas {
		n += 1 + len(m.Decls)
	}
	var cnt func(fs []*Fld) int
	cnt = func(fs []*Fld) int {
		s := 0
		for _, f := range fs {
			s += 2 + len(f.Attrs) + cnt(f.Inner)
			for _, pr := range f.Pairs {
				s += len(pr.Keys)
			}
			if f.Repeat {
				s++
			}
			if f.Desc != "" {
				s++
			}
			if f.Size > 1 {
				s++
			}
		}
		return s
	}
	for _, q := range p.Pkts {
		n += cnt(q.Fields)
	}
	if !p.NoOptBlock {
		n++
	}
	return n
}

func (p *Prog) fieldCount() int {
	n := 0
	var cnt func(fs []*Fld)
	cnt = func(fs []*Fld) {
		for _, f := range fs {
			n++
			cnt(f.Inner)
		}
	}
	for _, q := range p.Pkts {
		cnt(q.Fields)
	}
	return n
}

// ShrinkProg greedily applies edits while pred holds, within a budget of
// predicate evaluations.
func ShrinkProg(p *Prog, pred func(*Prog) bool, budget int) (*Prog, int) {
	cur := p
	used := 0
	for progress := true; progress && used < budget; {
		progress = false
		es := cur.edits()
		for i := 0; i < len(es) && used < budget; i++ {
			cand := cur.apply(es[i])
			if cand.size() >= cur.size() {
				continue
			}
			used++
			if pred(cand) {
				cur = cand
				progress = true
				es = cur.edits()
				i-- // the next candidate now sits at the same index
			}
		}
	}
	return cur, used
}

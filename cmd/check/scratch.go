package main

import (
	"bytes"
	"encoding/json"
	"fmt"
	"os"
	"os/exec"
	"path/filepath"
	"strings"
	"time"

	"verif/rewrite"
)

// Scratch is the private rewritten copy of /repo's working tree and the
// binaries built from it. Everything lives under one directory that is
// removed on exit.
type Scratch struct {
	Dir       string // root of everything
	Src       string // rewritten module copy
	Worker    string // library-level world runner
	SimCLI    string // rewritten CLI (cgo on)
	RealCLI   string // unrewritten CLI built straight from /repo (thorough / fidelity)
	RealSO    string // unrewritten c-shared library (thorough)
	CHost     string // C host program for RealSO
	Report    *rewrite.Report
	BuildSecs float64
	Work      string // per-run work area (sandboxes, world configs)
	Reused    bool
}

var repoRoot = "/repo"
var verifRoot = "/verif"

func init() {
	if p := os.Getenv("VERIF_REPO"); p != "" {
		repoRoot = p
	}
	if p := os.Getenv("VERIF_ROOT"); p != "" {
		verifRoot = p
	} else if exe, err := os.Executable(); err == nil {
		// bin/check -> verif root
		d := filepath.Dir(filepath.Dir(exe))
		if _, err := os.Stat(filepath.Join(d, "_inject")); err == nil {
			verifRoot = d
		}
	}
}

type infraError struct{ msg string }

func (e *infraError) Error() string { return e.msg }

func infraf(format string, a ...any) error { return &infraError{fmt.Sprintf(format, a...)} }

func run(dir string, env []string, name string, args ...string) (string, error) {
	cmd := exec.Command(name, args...)
	cmd.Dir = dir
	cmd.Env = env
	var out bytes.Buffer
	cmd.Stdout = &out
	cmd.Stderr = &out
	err := cmd.Run()
	return out.String(), err
}

func copyTree(src, dst string) error {
	return filepath.Walk(src, func(p string, fi os.FileInfo, err error) error {
		if err != nil {
			return err
		}
		rel, _ := filepath.Rel(src, p)
		t := filepath.Join(dst, rel)
		if fi.IsDir() {
			return os.MkdirAll(t, 0o755)
		}
		data, err := os.ReadFile(p)
		if err != nil {
			return err
		}
		return os.WriteFile(t, data, 0o644)
	})
}

// BuildScratch copies /repo's current working tree, rewrites the seams,
// injects the simulator runtime and builds the binaries.
func BuildScratch(needReal bool, logf func(string, ...any)) (*Scratch, error) {
	t0 := time.Now()
	if pre := os.Getenv("VERIF_SCRATCH"); pre != "" {
		// a scratch built by the determinism self-test (VERIF_KEEP): reuse it
		sc := &Scratch{Dir: pre, Src: filepath.Join(pre, "src"), Worker: filepath.Join(pre, "simworker"), SimCLI: filepath.Join(pre, "simcli"), Reused: true}
		if _, err := os.Stat(filepath.Join(pre, "fin-protoc-real")); err == nil {
			sc.RealCLI, sc.RealSO, sc.CHost = filepath.Join(pre, "fin-protoc-real"), filepath.Join(pre, "libpacketdsl.so"), filepath.Join(pre, "chost")
		}
		data, err := os.ReadFile(filepath.Join(pre, "report.json"))
		if err != nil {
			return nil, infraf("VERIF_SCRATCH: %v", err)
		}
		sc.Report = &rewrite.Report{}
		if err := json.Unmarshal(data, sc.Report); err != nil {
			return nil, infraf("VERIF_SCRATCH: %v", err)
		}
		w, err := os.MkdirTemp(pre, "work-")
		if err != nil {
			return nil, infraf("VERIF_SCRATCH: %v", err)
		}
		sc.Work = w
		return sc, nil
	}
	base := os.Getenv("VERIF_TMP")
	if base == "" {
		base = os.TempDir()
	}
	dir, err := os.MkdirTemp(base, "verif-scratch-")
	if err != nil {
		return nil, infraf("mktemp: %v", err)
	}
	if r, err := filepath.EvalSymlinks(dir); err == nil {
		dir = r
	}
	sc := &Scratch{Dir: dir, Src: filepath.Join(dir, "src"), Work: filepath.Join(dir, "work")}
	_ = os.MkdirAll(sc.Work, 0o755)
	if out, err := run("/", os.Environ(), "rsync", "-a", "--exclude", ".git", "--exclude", "/bin", "--exclude", "*.so", "--exclude", "/chat", repoRoot+"/", sc.Src+"/"); err != nil {
		return sc, infraf("rsync failed: %v\n%s", err, out)
	}
	rep, err := rewrite.Run(sc.Src, nil)
	if err != nil {
		return sc, infraf("seam rewriter failed (the tree must compile): %v", err)
	}
	sc.Report = rep
	_ = os.WriteFile(filepath.Join(dir, "report.json"), mustJSON(rep), 0o644)
	// inject
	for _, pair := range [][2]string{
		{"_inject/simrt", "internal/simrt"},
		{"_inject/verifsim", "verifsim"},
		{"_inject/cmd", "cmd"},
	} {
		if err := copyTree(filepath.Join(verifRoot, pair[0]), filepath.Join(sc.Src, pair[1])); err != nil {
			return sc, infraf("inject %s: %v", pair[0], err)
		}
	}
	env := rewrite.GoEnv()
	env = append(env, "CGO_ENABLED=1")
	sc.Worker = filepath.Join(dir, "simworker")
	sc.SimCLI = filepath.Join(dir, "simcli")
	type job struct {
		name string
		args []string
		dir  string
	}
	jobs := []job{
		// -checklinkname=0: internal/simrt reaches the runtime's synctest bubble by linkname
		{"simworker", []string{"build", "-tags", "verif", "-ldflags=-checklinkname=0", "-o", sc.Worker, "./verifsim"}, sc.Src},
		{"simcli", []string{"build", "-tags", "verif", "-ldflags=-checklinkname=0", "-o", sc.SimCLI, "./cmd"}, sc.Src},
	}
	if needReal {
		// the unrewritten binaries are built from a second pristine copy so
		// that no go command ever runs inside /repo
		realSrc := filepath.Join(dir, "src-real")
		if out, err := run("/", os.Environ(), "rsync", "-a", "--exclude", ".git", "--exclude", "/bin", "--exclude", "*.so", "--exclude", "/chat", repoRoot+"/", realSrc+"/"); err != nil {
			return sc, infraf("rsync failed: %v\n%s", err, out)
		}
		sc.RealCLI = filepath.Join(dir, "fin-protoc-real")
		sc.RealSO = filepath.Join(dir, "libpacketdsl.so")
		jobs = append(jobs,
			job{"real cli", []string{"build", "-o", sc.RealCLI, "./cmd"}, realSrc},
			job{"real .so", []string{"build", "-buildmode=c-shared", "-o", sc.RealSO, "./cmd"}, realSrc},
		)
	}
	errs := make(chan error, len(jobs))
	for _, j := range jobs {
		go func(j job) {
			out, err := run(j.dir, env, rewrite.GoBin(), j.args...)
			if err != nil {
				errs <- infraf("go build (%s) failed: %v\n%s", j.name, err, out)
				return
			}
			errs <- nil
		}(j)
	}
	var first error
	for range jobs {
		if e := <-errs; e != nil && first == nil {
			first = e
		}
	}
	if first != nil {
		return sc, first
	}
	if needReal {
		sc.CHost = filepath.Join(dir, "chost")
		csrc := filepath.Join(verifRoot, "chost", "chost.c")
		if out, err := run(dir, os.Environ(), "gcc", "-O1", "-o", sc.CHost, csrc, "-ldl", "-lpthread"); err != nil {
			return sc, infraf("gcc chost failed: %v\n%s", err, out)
		}
	}
	sc.BuildSecs = time.Since(t0).Seconds()
	if logf != nil {
		logf("scratch build: %d seams, %d unseamed, %.1fs (%s)", len(rep.Seams), len(rep.Unseamed), sc.BuildSecs, dir)
	}
	return sc, nil
}

func (sc *Scratch) Cleanup() {
	if sc != nil && sc.Reused {
		_ = os.RemoveAll(sc.Work)
		return
	}
	if sc != nil && sc.Dir != "" && os.Getenv("VERIF_KEEP") == "" {
		_ = os.RemoveAll(sc.Dir)
	}
}

// SeamSummary is the seam inventory for the evidence file.
func (sc *Scratch) SeamSummary() map[string]any {
	byKind := map[string]int{}
	var list []string
	for _, s := range sc.Report.Seams {
		byKind[s.Kind]++
		list = append(list, s.Kind+" "+s.Site+" "+s.What)
	}
	return map[string]any{"by_kind": byKind, "sites": list, "unseamed": sc.Report.Unseamed}
}

func mustJSON(v any) []byte {
	b, err := json.Marshal(v)
	if err != nil {
		panic(err)
	}
	return b
}

func shortPath(p string) string {
	return strings.TrimPrefix(p, verifRoot+"/")
}

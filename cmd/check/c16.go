package main

import (
	"regexp"
	"bytes"
	"crypto/sha256"
	"encoding/json"
	"fmt"
	"os"
	"os/exec"
	"path/filepath"
	"sort"
	"strings"
	"sync"
	"time"
)

// C16 — every entry point delivers exactly the library result (DESIGN.md 5).
//
// A refinement claim between thin I/O wrappers and a tiny executable
// reference model (the formatter / the generators themselves, evaluated in
// the same rewritten build under the reference schedule), observed through
// the simulated disk (sandbox tree + op log) and the process model.

type HostCall struct {
	Thread int    `json:"thread"`
	Input  []byte `json:"input"`
}

type HostSpec struct {
	Threads    int        `json:"threads"`
	Calls      []HostCall `json:"calls"`
	Out        string     `json:"out,omitempty"`
	Concurrent bool       `json:"concurrent,omitempty"` // real .so only: threads run freely, no baton
	Procs      int        `json:"procs,omitempty"`      // GOMAXPROCS of the host process (0 = inherited)
	Preempt    bool       `json:"preempt,omitempty"`    // threads are goroutines of one bubble, preempted inside the export by the world's scheduler
	Hold       int        `json:"hold,omitempty"`       // host memory model: the last Hold returned strings stay alive and are read again before they are freed
	ReuseIn    bool       `json:"reuse_in,omitempty"`   // host memory model: one input buffer per host thread, refilled for every call, scribbled over afterwards
}

// like returns a spec with the same host model (threads, processors, memory
// model) and other calls.
func (sp *HostSpec) like(calls []HostCall) *HostSpec {
	return &HostSpec{Threads: sp.Threads, Calls: calls, Procs: sp.Procs, Hold: sp.Hold, ReuseIn: sp.ReuseIn}
}

type hostResult struct {
	Thread int    `json:"thread"`
	Output []byte `json:"output"`
	Panic  string `json:"panic,omitempty"`
	// second reading of the same returned buffer just before the host frees it
	Late     []byte `json:"late,omitempty"`
	LateRead bool   `json:"late_read,omitempty"`
}

func runC16(c *Ctx) error {
	thorough := c.Tier == "thorough"
	nfmt := envInt("VERIF_C16_FORMAT", 700)
	nhost := envInt("VERIF_C16_HOSTS", 8)
	hostLen := envInt("VERIF_C16_HOSTLEN", 160)
	ncomp := envInt("VERIF_C16_COMPILE", 70)
	nso := 0
	if thorough {
		nfmt = envInt("VERIF_C16_FORMAT", 20000)
		nhost = envInt("VERIF_C16_HOSTS", 200)
		hostLen = envInt("VERIF_C16_HOSTLEN", 500)
		ncomp = envInt("VERIF_C16_COMPILE", 1500)
		nso = envInt("VERIF_C16_SO", 40)
	}
	pool := NewPool(c.sc.Worker, c.Workers, 1)
	defer pool.Close()
	c.logf("format entry points: %d inputs x {-d, -f}", nfmt)
	if err := ParallelFor(nfmt, c.Workers, func(i int) error { return c16Format(c, pool, i, thorough) }); err != nil {
		return err
	}
	// boundary sweep: texts with about 2^7, 2^8 and 2^9 syntax errors (exit
	// statuses are 8 bits wide, counters and buffers have favourite sizes)
	var floods [][]byte
	for _, snippet := range []string{"packet P%d { u8 }\n", "packet Q%d { , }\n"} {
		for _, n := range []int{1, 2, 126, 127, 128, 129, 254, 255, 256, 257, 258, 511, 512, 513} {
			var b strings.Builder
			for k := 0; k < n; k++ {
				fmt.Fprintf(&b, snippet, k)
			}
			floods = append(floods, []byte(b.String()))
		}
	}
	// block-boundary sweep: well-formed UTF-8 texts in which a multi-byte
	// character straddles a multiple of a favourite buffer size (chunked
	// readers and writers, per-block validation, C-side buffers)
	nBefore := len(floods)
	for bi, B := range []int{512, 1024, 4096, 8192, 16384, 32768, 65536, 131072} {
		for vi, ch := range []string{"\u00e9", "\u4e2d", "\U0001F600"} {
			for off := 1; off < len(ch); off++ {
				body := GenProg(SubSeed(c.Seed, "boundary-prog", bi*10+vi)).Render()
				pre := "// " + strings.Repeat("a", B-off-3)
				floods = append(floods, []byte(pre+ch+"\n"+body))
				// ... and the same inside text the formatter keeps verbatim at the END of the file
				if room := B - off - len(body) - 4; room > 0 {
					floods = append(floods, []byte(body+"\n// "+strings.Repeat("b", room)+ch+" tail\n"))
				}
			}
		}
	}
	c.ev.Fire("multibyte_character_straddles_block_boundary", len(floods)-nBefore)
	// result-size sweep: well-formed texts whose FORMATTED result is exactly
	// N-1, N, N+1 bytes for favourite buffer sizes N (chunked writers, pipe
	// capacity); the formatter keeps a trailing comment verbatim, so the
	// result length is linear in the comment length
	nBefore = len(floods)
	for ni, N := range []int{4096, 8192, 32768, 65536} {
		body := GenProg(SubSeed(c.Seed, "size-prog", ni)).Render()
		mk := func(k int) []byte { return []byte(body + "\n// " + strings.Repeat("s", k) + "\n") }
		r0, err := formatRef(pool, mk(1))
		if err != nil {
			return err
		}
		if !r0.FormatOK || len(r0.FormatOut) >= N-2 {
			continue
		}
		for _, want := range []int{N - 1, N, N + 1} {
			in := mk(1 + want - len(r0.FormatOut))
			if rr, err := formatRef(pool, in); err == nil && rr.FormatOK && len(rr.FormatOut) == want {
				floods = append(floods, in)
			}
		}
	}
	c.ev.Fire("formatted_result_exactly_at_buffer_size", len(floods)-nBefore)
	// the repository's own sample programs, as they are and under other layouts
	if files, _ := filepath.Glob(filepath.Join(c.sc.Src, "internal", "parser", "testdata", "*.dsl")); len(files) > 0 {
		sort.Strings(files)
		for fi, f := range files {
			data, err := os.ReadFile(f)
			if err != nil {
				continue
			}
			floods = append(floods, data)
			toks := tokenize(string(data))
			for k := 1; k <= 4; k++ {
				lr := NewRng(SubSeed(c.Seed, "sample-layout", fi*10+k))
				floods = append(floods, []byte(joinLayout(toks, lr, 1+lr.Intn(4), k%2 == 0)))
			}
		}
		c.ev.Fire("repository_sample_program", len(files))
	}
	if err := ParallelFor(len(floods), c.Workers, func(i int) error {
		c.ev.Fire("error_flood_boundary_input", 1)
		_, err := c16FormatOne(c, pool, 1000000+i, "flood", SubSeed(c.Seed, "flood", i), floods[i])
		return err
	}); err != nil {
		return err
	}
	c.logf("library export: %d host histories of %d calls", nhost, hostLen)
	if err := ParallelFor(nhost, c.Workers, func(i int) error { return c16Host(c, pool, i, hostLen, false) }); err != nil {
		return err
	}
	npre := envInt("VERIF_C16_PREEMPT", 1200)
	if thorough {
		npre = envInt("VERIF_C16_PREEMPT", 40000)
	}
	c.logf("library export: %d preemptive host worlds (2-3 threads inside the export at once, scheduler-chosen interleaving)", npre)
	if err := ParallelFor(npre, c.Workers, func(i int) error { return c16HostPreempt(c, pool, i) }); err != nil {
		return err
	}
	if nso > 0 {
		c.logf("library export: %d host histories through the real libpacketdsl.so and a C host", nso)
		if err := ParallelFor(nso, c.Workers, func(i int) error { return c16Host(c, pool, i, 120, true) }); err != nil {
			return err
		}
	}
	if nso > 0 {
		nconc := envInt("VERIF_C16_CONCURRENT", 30)
		c.logf("library export: %d free-running multi-threaded histories through the real libpacketdsl.so (uncontrolled interleaving)", nconc)
		if err := ParallelFor(nconc, 4, func(i int) error { return c16HostConcurrent(c, pool, i) }); err != nil {
			return err
		}
	}
	c.logf("compile entry points: %d programs", ncomp)
	nargv := envInt("VERIF_C16_ARGV", 1)
	if thorough {
		nargv = envInt("VERIF_C16_ARGV", 12)
	}
	c.logf("compile argument shapes: %d program(s) x every cell of {subcommand word} x {flag order} x {5 file-flag spellings} x {5 output-flag spellings} x {9 directory values}", nargv)
	for j := 0; j < nargv; j++ {
		if err := c16ArgvSweep(c, pool, j); err != nil {
			return err
		}
	}
	if err := ParallelFor(ncomp, c.Workers, func(i int) error { return c16Compile(c, pool, i, thorough) }); err != nil {
		return err
	}
	if err := c16Informational(c, pool); err != nil {
		return err
	}
	return nil
}

// formatRef is the reference model of the formatter entry points: the library
// call on this text as the ONLY thing a fresh process ever does. (A long-lived
// worker would hand back whatever state the library keeps between calls - a
// pooled visitor, a memo - as part of the "reference", and could both raise
// candidates that are the reference's own fault and mask a wrapper that is
// wrong in the same way.) Results are cached per text for the run: a fresh
// process is a pure function of the text.
var fmtRefCache sync.Map

func formatRef(pool *Pool, in []byte) (*Resp, error) {
	key := sha256.Sum256(in)
	if v, ok := fmtRefCache.Load(key); ok {
		return v.(*Resp), nil
	}
	r, err := DoFresh(pool.bin, &Req{Op: "format", DSL: in, Sched: s0()}, 1)
	if err != nil {
		return nil, err
	}
	fmtRefCache.Store(key, r)
	return r, nil
}

func hasWriteOps(o *CLIOutcome, under string) []string {
	var out []string
	for _, op := range o.Rec.Ops {
		if !op.Write {
			continue
		}
		if under == "" || op.Path == under || op.Path2 == under {
			out = append(out, op.Op+" "+op.Path)
		}
	}
	return out
}

type fileShape struct {
	name string
	rel  string      // path given on the command line ({SB} for absolute)
	disk []DiskEntry // extra disk0 entries (the file itself is added by the caller at real)
	real string      // sandbox-relative path of the regular file that holds the text
	cwd  string
}

func fileShapes(r *Rng) fileShape {
	if NewRng(r.s[0] ^ 0x6e616d656d6178).Chance(1, 12) {
		// a file name of exactly NAME_MAX bytes: no sibling name derived from it
		// (name + ".tmp", ".name.swp", name + "~") can exist
		n := strings.Repeat("n", 251) + ".dsl"
		return fileShape{name: "name-max", rel: n, real: n}
	}
	switch r.Intn(8) {
	case 6:
		// a name that is also a shell/glob pattern, next to a file the pattern would match
		return fileShape{name: "glob-brackets", rel: "v[1].dsl", real: "v[1].dsl", disk: []DiskEntry{{Path: "v1.dsl", Kind: "file", Data: []byte("packet MatchedByThePattern {   }\n")}}}
	case 7:
		return fileShape{name: "glob-wildcards", rel: "what?*.dsl", real: "what?*.dsl", disk: []DiskEntry{{Path: "whats-up.dsl", Kind: "file", Data: []byte("packet  AlsoMatched{}")}}}
	case 0:
		return fileShape{name: "relative", rel: "in.dsl", real: "in.dsl"}
	case 1:
		return fileShape{name: "absolute", rel: "{SB}/in.dsl", real: "in.dsl"}
	case 2:
		return fileShape{name: "nested", rel: "proto/v1/msg.dsl", real: "proto/v1/msg.dsl"}
	case 3:
		return fileShape{name: "symlinked", rel: "link.dsl", real: "store/real.dsl", disk: []DiskEntry{{Path: "link.dsl", Kind: "symlink", Target: "store/real.dsl"}}}
	case 4:
		return fileShape{name: "from-subdir", rel: "../in.dsl", real: "in.dsl", cwd: "work"}
	default:
		return fileShape{name: "odd-name", rel: "my file -x.dsl", real: "my file -x.dsl"}
	}
}

func c16Format(c *Ctx, pool *Pool, i int, thorough bool) error {
	seed := SubSeed(c.Seed, "c16fmt", i)
	in := FormatInput(seed)
	out, err := c16FormatOne(c, pool, i, "", seed, in)
	if err != nil || out == nil {
		return err
	}
	// already-formatted text with surrounding whitespace: the formatter's own
	// output (canonical, trimmed) decorated with a final newline, blank lines,
	// CRLF or trailing blanks
	r := NewRng(SubSeed(seed, "canon", 0))
	if r.Chance(1, 3) {
		var in2 []byte
		switch r.Intn(8) {
		case 6:
			// the canonical text as a CRLF checkout would hold it
			in2 = bytes.ReplaceAll(out, []byte("\n"), []byte("\r\n"))
		case 7:
			in2 = append(bytes.ReplaceAll(out, []byte("\n"), []byte("\r\n")), '\r', '\n')
		case 0:
			in2 = append(append([]byte{}, out...), '\n')
		case 1:
			in2 = append([]byte("\n\n"), out...)
		case 2:
			in2 = append(append([]byte{}, out...), '\r', '\n')
		case 3:
			in2 = append(append([]byte{}, out...), ' ', ' ', '\n', '\n')
		case 4:
			in2 = append([]byte{}, out...) // byte-identical to the canonical text
		default:
			in2 = append(append([]byte("\t\n"), out...), '\n')
		}
		if len(in2) > 0 {
			c.ev.Fire("input_already_formatted", 1)
			_, err = c16FormatOne(c, pool, i, "canon", SubSeed(seed, "canon", 1), in2)
		}
	}
	return err
}

// c16FormatOne sends one input through format -d and format -f; it returns the
// reference output when the input is valid.
func c16FormatOne(c *Ctx, pool *Pool, i int, tag string, seed uint64, in []byte) ([]byte, error) {
	r := NewRng(seed)
	ref, err := formatRef(pool, in)
	if err != nil {
		return nil, err
	}
	c.ev.AddRecord(&ref.Rec)
	if ref.TimedOut || ref.Crashed != "" || ref.ParsePanic != "" {
		// the reference itself panics or hangs: C11's domain, not an entry-point question
		c.ev.Count("format_inputs_skipped_reference_panics", 1)
		return nil, nil
	}
	c.ev.Count("format_inputs", 1)
	if ref.FormatOK {
		c.ev.Count("format_inputs_valid", 1)
	} else {
		c.ev.Count("format_inputs_invalid", 1)
		c.ev.Fire("invalid_input", 1)
	}
	c.ev.MarkDistinct(fmt.Sprintf("fmt|%x", sha8(in)))
	if i < 2 && tag == "" {
		c.ev.AddSample(map[string]any{"entry": "format -d / format -f", "input": string(in), "reference_ok": ref.FormatOK, "reference_output": string(ref.FormatOut)}, 6)
	}
	// --- format -d ---
	if len(in) > 0 && !bytes.Contains(in, []byte{0}) && len(in) < 120000 {
		spell := r.Intn(7)
		argvFor := func(x []byte) []string {
			switch spell {
			case 0:
				return []string{"format", "-d", string(x)}
			case 1:
				return []string{"format", "--dsl", string(x)}
			case 2:
				return []string{"format", "--dsl=" + string(x)}
			case 3:
				return []string{"format", "-d=" + string(x)}
			case 4:
				return []string{"format", "-d" + string(x)} // shorthand with the value attached
			case 5:
				// a repeated flag: the last value counts
				return []string{"format", "-d", "packet Earlier { }", "--dsl", string(x)}
			default:
				return []string{"format", "--dsl", string(x)}
			}
		}
		if spell == 4 && len(in) > 0 && in[0] == '=' {
			spell = 0
		}
		argv := argvFor(in)
		w := &CLIWorld{Argv: argv, Disk0: []DiskEntry{{Path: "other.dsl", Kind: "file", Data: []byte("root packet Other { u8 x, }\n")}, {Path: "sub", Kind: "dir"}}, Sched: s0()}
		if r.Chance(1, 3) {
			w.Cwd = "sub"
		}
		switch r.Intn(6) {
		case 0, 1:
			w.StdoutKind = "file" // standard output redirected to a file instead of a pipe
		case 2:
			w.StdoutKind = "pty" // a terminal
			c.ev.Fire("stdout_is_a_terminal", 1)
		}
		o, err := c.sc.RunCLI(w)
		if err != nil {
			return nil, err
		}
		c.ev.AddRecord(&o.Rec)
		c.ev.Count("cli_worlds", 1)
		c.event(fmt.Sprintf("c16fmt|%d%s|d", i, tag), in, argv[:2], o.Exit, o.Stdout, treeSig(o, ""), opSig(o), ref.FormatOK, ref.FormatOut)
		if !o.TimedOut {
			if v := checkFormatD(ref, o); v != nil {
				c.candidate16Format(i, "format-d", v, in, w, nil, argvFor)
			}
		}
	}
	// --- format -f ---
	sh := fileShapes(r)
	disk := append([]DiskEntry{}, sh.disk...)
	disk = append(disk, DiskEntry{Path: sh.real, Kind: "file", Data: in}, DiskEntry{Path: "sibling.dsl", Kind: "file", Data: []byte("packet Sibling { }\n")})
	if sh.cwd != "" {
		disk = append(disk, DiskEntry{Path: sh.cwd, Kind: "dir"})
	}
	var fargv []string
	switch r.Intn(6) {
	case 0:
		fargv = []string{"format", "--file", sh.rel}
	case 1:
		fargv = []string{"format", "--file=" + sh.rel}
	case 2:
		fargv = []string{"format", "-f=" + sh.rel}
	case 3:
		fargv = []string{"format", "-f", "no-such-file.dsl", "-f", sh.rel} // repeated: the last one counts
	default:
		fargv = []string{"format", "-f", sh.rel}
	}
	w := &CLIWorld{Argv: fargv, Cwd: sh.cwd, Disk0: disk, Sched: s0()}
	o, err := c.sc.RunCLI(w)
	if err != nil {
		return nil, err
	}
	c.ev.AddRecord(&o.Rec)
	c.ev.Count("cli_worlds", 1)
	c.ev.Fire("disk0_shape_"+sh.name, 1)
	c.event(fmt.Sprintf("c16fmt|%d%s|f", i, tag), w.Argv, sh.name, o.Exit, o.Stdout, treeSig(o, ""), opSig(o))
	if !o.TimedOut {
		if sh.name == "name-max" && ref.FormatOK && gaveUp(o, sh, in) {
			// no sibling name can be derived from a NAME_MAX name: a wrapper
			// that needs one and gives up (non-zero exit, or the file exactly
			// as it was) has promised nothing
			c.ev.Count("fault_runs_that_gave_up", 1)
		} else if v := checkFormatF(ref, o, sh); v != nil {
			c.candidate16Format(i, "format-f", v, in, w, &sh, nil)
		}
	}
	// fault: the directory accepts no new entries (somebody else's checkout, a
	// read-only mount with writable files): creating a temp file, a backup or
	// a lock fails with EACCES, the file itself stays writable. A run that
	// reports failure promises nothing; a run that exits 0 must have left
	// exactly the result (fallback paths of "safe" rewriting).
	fr := NewRng(SubSeed(seed, "deny-create", 0))
	if fr.Chance(1, 4) {
		cfg := s0()
		cfg.DenyCreate = true
		wf := &CLIWorld{Argv: fargv, Cwd: sh.cwd, Disk0: disk, Sched: cfg}
		of, err := c.sc.RunCLI(wf)
		if err != nil {
			return nil, err
		}
		c.ev.AddRecord(&of.Rec)
		c.ev.Count("cli_worlds", 1)
		c.ev.Fire("format_f_directory_accepts_no_new_entries", 1)
		c.event(fmt.Sprintf("c16fmt|%d%s|f-deny", i, tag), wf.Argv, sh.name, of.Exit, treeSig(of, ""), opSig(of))
		if !of.TimedOut {
			if ref.FormatOK && gaveUp(of, sh, in) {
				c.ev.Count("fault_runs_that_gave_up", 1)
			} else if v := checkFormatF(ref, of, sh); v != nil {
				v.msg += " [fault: the directory accepts no new entries, existing files stay writable]"
				c.candidate16Format(i, "format-f", v, in, wf, &sh, nil)
			}
		}
	}
	if ref.FormatOK {
		return ref.FormatOut, nil
	}
	return nil, nil
}

type c16Viol struct {
	class string
	msg   string
	diffs []string
}

func checkFormatD(ref *Resp, o *CLIOutcome) *c16Viol {
	cr, mo, rm := o.changed()
	if len(cr)+len(mo)+len(rm) > 0 {
		return &c16Viol{"touched-disk", fmt.Sprintf("format -d changed the file system: created %v modified %v removed %v", cr, mo, rm), nil}
	}
	if ops := hasWriteOps(o, ""); len(ops) > 0 {
		return &c16Viol{"write-ops", fmt.Sprintf("format -d issued write-class file operations: %v", ops), nil}
	}
	if ref.FormatOK {
		if o.Exit != 0 {
			return &c16Viol{"exit", fmt.Sprintf("format -d exits %d on an input the formatter accepts", o.Exit), nil}
		}
		want := ref.FormatOut
		if !bytes.Equal(o.Stdout, want) && !bytes.Equal(o.Stdout, append(append([]byte{}, want...), '\n')) {
			return &c16Viol{"stdout", fmt.Sprintf("format -d stdout is not exactly the formatter's result: got %q want %q", clip(string(o.Stdout), 160), clip(string(want), 160)), allDiffLines(want, o.Stdout)}
		}
		return nil
	}
	if o.Exit == 0 {
		return &c16Viol{"exit-on-error", "format -d exits 0 on a syntax error", nil}
	}
	return nil
}

// gaveUp: under an environment fault the property promises nothing, and the
// pinned tree's own convention on a failed write is to print the error and
// still exit 0. A faulted run is therefore judged only when it claims
// success AND changed the file: non-zero exit, or the file byte for byte as
// it was, is "gave up". What remains is the case that matters: exit 0 and a
// file that is neither the old text nor the formatter's result.
func gaveUp(o *CLIOutcome, sh fileShape, in []byte) bool {
	if o.Exit != 0 {
		return true
	}
	a, ok := o.After[sh.real]
	return ok && a.Kind == "file" && bytes.Equal(a.Data, in)
}

func checkFormatF(ref *Resp, o *CLIOutcome, sh fileShape) *c16Viol {
	after, ok := o.After[sh.real]
	before := o.Before[sh.real]
	// siblings and every other pre-existing entry must be untouched in all cases
	var beforePaths []string
	for p := range o.Before {
		beforePaths = append(beforePaths, p)
	}
	sort.Strings(beforePaths)
	for _, p := range beforePaths {
		b := o.Before[p]
		if p == sh.real {
			continue
		}
		a, ok := o.After[p]
		if !ok || a.Kind != b.Kind || a.Sha != b.Sha || a.Target != b.Target {
			return &c16Viol{"sibling", fmt.Sprintf("format -f %s changed another file system entry: %s", sh.rel, p), nil}
		}
	}
	if ref.FormatOK {
		if o.Exit != 0 {
			return &c16Viol{"exit", fmt.Sprintf("format -f exits %d on an input the formatter accepts (stdout %q)", o.Exit, clip(string(o.Stdout), 120)), nil}
		}
		if !ok || after.Kind != "file" {
			return &c16Viol{"content", "format -f: the file is gone after formatting", nil}
		}
		if !bytes.Equal(after.Data, ref.FormatOut) {
			return &c16Viol{"content", fmt.Sprintf("format -f leaves %q in the file, the formatter's result is %q", clip(string(after.Data), 160), clip(string(ref.FormatOut), 160)), allDiffLines(ref.FormatOut, after.Data)}
		}
		return nil
	}
	if o.Exit == 0 {
		return &c16Viol{"exit-on-error", "format -f exits 0 on a syntax error", nil}
	}
	if !ok || after.Sha != before.Sha || after.Ino != before.Ino || after.MtimeNs != before.MtimeNs || after.Mode != before.Mode {
		return &c16Viol{"touched-on-error", fmt.Sprintf("format -f touched the file on a syntax error (present=%v, bytes equal=%v, inode %d->%d)", ok, after.Sha == before.Sha, before.Ino, after.Ino), nil}
	}
	for _, op := range o.Rec.Ops {
		if op.Write {
			return &c16Viol{"touched-on-error", fmt.Sprintf("format -f issued a write-class file operation on a syntax error: %s %s", op.Op, op.Path), nil}
		}
	}
	return nil
}

func (c *Ctx) candidate16Format(caseIdx int, entry string, v *c16Viol, in []byte, w *CLIWorld, sh *fileShape, argvFor func([]byte) []string) {
	c.mu.Lock()
	c.candidates++
	coarse := "C16|" + entry + "|" + v.class
	if c.sigSeen["coarse:"+coarse] || c.processed >= 40 {
		c.mu.Unlock()
		return
	}
	c.sigSeen["coarse:"+coarse] = true
	c.processed++
	c.mu.Unlock()
	candMu <- struct{}{}
	defer func() { <-candMu }()
	build := func(x []byte) *CLIWorld {
		nw := *w
		if entry == "format-d" {
			nw.Argv = argvFor(x)
		} else {
			nw.Disk0 = nil
			for _, d := range w.Disk0 {
				if d.Path == sh.real {
					d.Data = x
				}
				nw.Disk0 = append(nw.Disk0, d)
			}
		}
		return &nw
	}
	fails := func(x []byte) *c16Viol {
		if entry == "format-d" && (len(x) == 0 || bytes.Contains(x, []byte{0})) {
			return nil
		}
		ref, err := DoFresh(c.sc.Worker, &Req{Op: "format", DSL: x, Sched: s0()}, 1)
		if err != nil || ref.TimedOut || ref.Crashed != "" || ref.ParsePanic != "" {
			return nil
		}
		o, err := c.sc.RunCLI(build(x))
		if err != nil || o.TimedOut {
			return nil
		}
		var nv *c16Viol
		if entry == "format-d" {
			nv = checkFormatD(ref, o)
		} else {
			nv = checkFormatF(ref, o, *sh)
			if (w.Sched.DenyCreate || sh.name == "name-max") && ref.FormatOK && gaveUp(o, *sh, x) {
				nv = nil // a faulted run that gave up is not judged
			}
		}
		if nv != nil && nv.class == v.class {
			return nv
		}
		return nil
	}
	if fails(in) == nil {
		c.ev.Count("unconfirmed_candidates", 1)
		c.logf("candidate (case %d, %s %s) did not reproduce: not reported", caseIdx, entry, v.class)
		c.mu.Lock()
		delete(c.sigSeen, "coarse:"+coarse)
		c.mu.Unlock()
		return
	}
	small := ddminBytes(in, func(x []byte) bool { return fails(x) != nil }, 150)
	fv := fails(small)
	if fv == nil {
		small, fv = in, v
	}
	rf := &ReplayFile{Property: "C16", Kind: "cli-c16-format", RunSeed: c.Seed, Case: caseIdx, DSLBytes: small, CLI: build(small),
		Expect:    map[string]any{"entry": entry, "class": fv.class},
		Original:  map[string]any{"input_bytes": len(in)},
		Minimised: map[string]any{"input_bytes": len(small)}}
	c.report("C16|"+entry+"|"+fv.class, fv.msg+fmt.Sprintf(" [input %q]", clip(string(small), 120)), fv.diffs, rf)
}

// ddminBytes: line-then-chunk delta debugging on an input text.
func ddminBytes(in []byte, pred func([]byte) bool, budget int) []byte {
	cur := in
	used := 0
	for gran := 2; len(cur) > 1 && used < budget; {
		n := len(cur)
		chunk := (n + gran - 1) / gran
		reduced := false
		for start := 0; start < n && used < budget; start += chunk {
			end := start + chunk
			if end > n {
				end = n
			}
			cand := append(append([]byte{}, cur[:start]...), cur[end:]...)
			used++
			if pred(cand) {
				cur = cand
				reduced = true
				break
			}
		}
		if reduced {
			if gran > 2 {
				gran--
			}
			continue
		}
		if chunk <= 1 {
			break
		}
		gran *= 2
		if gran > len(cur) {
			gran = len(cur)
		}
	}
	return cur
}

func sha8(b []byte) uint64 {
	var h uint64 = 1469598103934665603
	for _, x := range b {
		h = (h ^ uint64(x)) * 1099511628211
	}
	return h
}

// ---- the exported C function, called many times by one host process ----

func c16Host(c *Ctx, pool *Pool, i int, n int, realSO bool) error {
	tag := "c16host"
	if realSO {
		tag = "c16so"
	}
	seed := SubSeed(c.Seed, tag, i)
	r := NewRng(seed)
	spec := &HostSpec{Threads: 1 + r.Intn(4)}
	if i%4 == 1 {
		spec.Threads = 1 // the plain editor plug-in: one thread, call after call
	}
	if i%3 == 2 {
		spec.Procs = 1 // every thread shares the one processor's caches
	}
	var mr *Rng
	if !realSO {
		// host memory model, drawn from a stream of its own
		mr = NewRng(SubSeed(seed, "mem", 0))
		if mr.Chance(1, 2) {
			spec.Hold = []int{1, 2, 3, 8, 1000}[mr.Intn(5)]
			c.ev.Fire("host_holds_earlier_results", 1)
		}
		if mr.Chance(1, 2) {
			spec.ReuseIn = true
			c.ev.Fire("host_reuses_input_buffer", 1)
		}
	}
	// each simulated host thread has a queue; the scheduler picks whose next call runs
	var pending []uint64
	for k := 0; k < n; k++ {
		pending = append(pending, SubSeed(seed, "in", r.Intn(n/3+1))) // repeats on purpose: same input, different history
	}
	// inputs on which the reference formatter itself panics are outside the
	// property (and would abort a real C host, which cannot recover a Go panic)
	refs := map[string]*Resp{}
	for _, s := range pending {
		// the same token stream comes back under other white-space layouts
		in := FormatInputLayout(s, r.Intn(4))
		if len(spec.Calls) > 0 && r.Chance(1, 8) {
			// the unchanged buffer again, straight away (format on every idle tick)
			spec.Calls = append(spec.Calls, HostCall{Thread: spec.Calls[len(spec.Calls)-1].Thread, Input: spec.Calls[len(spec.Calls)-1].Input})
			c.ev.Fire("host_input_resubmitted_immediately", 1)
		}
		if len(spec.Calls) > 0 && r.Chance(1, 6) {
			// an earlier text of this history again, with other white space
			// AROUND it (line and column of a syntax error move with it)
			prev := spec.Calls[r.Intn(len(spec.Calls))].Input
			core := bytes.TrimSpace(prev)
			in = append(append([]byte(r.Pick([]string{"", "\n", "\n\n", " ", "\t", "\r\n", "\n  "})), core...), []byte(r.Pick([]string{"", "\n", " ", "\n\n", "\t\n"}))...)
			c.ev.Fire("host_input_resubmitted_with_other_surrounding_white_space", 1)
		}
		if bytes.Contains(in, []byte{0}) || len(in) > 400000 {
			continue
		}
		thread := r.Intn(spec.Threads)
		if mr != nil && len(spec.Calls) > 0 && mr.Chance(1, 5) {
			// the user overtypes one character: the same thread submits a text
			// of the SAME length (same buffer, same address when the host reuses
			// its input buffer) that differs from its previous one in one
			// letter or digit
			prev := spec.Calls[len(spec.Calls)-1]
			var pos []int
			for j, ch := range prev.Input {
				if ch >= 'a' && ch <= 'z' || ch >= '0' && ch <= '9' {
					pos = append(pos, j)
				}
			}
			if len(pos) > 0 {
				j := pos[mr.Intn(len(pos))]
				in = append([]byte{}, prev.Input...)
				if in[j] >= 'a' {
					in[j] = 'a' + (in[j]-'a'+1+byte(mr.Intn(24)))%26
				} else {
					in[j] = '0' + (in[j]-'0'+1+byte(mr.Intn(8)))%10
				}
				thread = prev.Thread
				c.ev.Fire("host_input_same_length_one_character_overtyped", 1)
			}
		}
		ref, ok := refs[string(in)]
		if !ok {
			var err error
			if ref, err = formatRef(pool, in); err != nil {
				return err
			}
			refs[string(in)] = ref
		}
		if ref.TimedOut || ref.Crashed != "" || ref.ParsePanic != "" {
			c.ev.Count("host_inputs_skipped_reference_panics", 1)
			continue
		}
		spec.Calls = append(spec.Calls, HostCall{Thread: thread, Input: in})
	}
	if len(spec.Calls) == 0 {
		return nil
	}
	res, err := runHost(c, spec, realSO)
	if hc, ok := err.(*hostCrashErr); ok && !realSO {
		c.candidate16HostCrash(i, spec, hc)
		return nil
	}
	if err != nil {
		return err
	}
	if res == nil {
		c.mu.Lock()
		c.inconclusive++
		c.mu.Unlock()
		return nil
	}
	c.ev.Count("host_histories", 1)
	c.event(fmt.Sprintf("c16host|%d|%v", i, realSO), spec, res)
	c.ev.Fire("host_call_interleaved", len(spec.Calls))
	c.ev.MarkDistinct(fmt.Sprintf("host|%x", seed))
	if i == 0 && !realSO && len(spec.Calls) > 2 {
		c.ev.AddSample(map[string]any{"entry": "FormatPacketDslExport host history", "threads": spec.Threads, "first_calls": []any{map[string]any{"thread": spec.Calls[0].Thread, "input": clip(string(spec.Calls[0].Input), 200)}, map[string]any{"thread": spec.Calls[1].Thread, "input": clip(string(spec.Calls[1].Input), 200)}}, "calls": len(spec.Calls)}, 6)
	}
	for k, call := range spec.Calls {
		ref := refs[string(call.Input)]
		c.ev.Count("host_calls_checked", 1)
		if res[k].LateRead {
			c.ev.Count("host_results_read_again_before_free", 1)
		}
		if v := checkHostCall(ref, &res[k]); v != nil {
			c.candidate16Host(i, spec, k, v, realSO)
		} else if v := c.checkErrorTextCold(ref, call, &res[k], realSO); v != nil {
			c.candidate16Host(i, spec, k, v, realSO)
		}
	}
	return nil
}

// checkErrorTextCold: "for the same input" the export is a function of its
// input. For a syntactically invalid text the property fixes only the prefix
// of the message, so no particular wording is demanded; but the message this
// call returned inside a history must be the message the very same build
// returns for the very same text in a cold single-call process. The fast path
// (message == "Error:" + the library's error text) avoids the extra process
// on trees that build the message the way the pinned tree does.
func (c *Ctx) checkErrorTextCold(ref *Resp, call HostCall, got *hostResult, realSO bool) *c16Viol {
	if ref.FormatOK || got.Panic != "" {
		return nil
	}
	if string(got.Output) == "Error:"+ref.FormatErr {
		return nil
	}
	c.ev.Count("host_error_texts_compared_with_cold_call", 1)
	cold, err := runHost(c, &HostSpec{Threads: 1, Calls: []HostCall{{Thread: 0, Input: call.Input}}}, realSO)
	if err != nil || cold == nil || cold[0].Panic != "" {
		return nil
	}
	if bytes.Equal(cold[0].Output, got.Output) {
		return nil
	}
	return &c16Viol{"error-text-depends-on-history", fmt.Sprintf("FormatPacketDslExport returns %q for a text for which the same build returns %q when it is the only call of the process (the message belongs to another input or call)", clip(string(got.Output), 200), clip(string(cold[0].Output), 200)), nil}
}

// c16HostConcurrent: several real threads inside the exported function at
// once. The interleaving is the operating system's, not the simulator's: this
// is the uncontrolled complement of the call-granularity host histories. A
// mismatch is confirmed by repetition and replays statistically.
func c16HostConcurrent(c *Ctx, pool *Pool, i int) error {
	seed := SubSeed(c.Seed, "c16conc", i)
	r := NewRng(seed)
	spec := &HostSpec{Threads: 8, Concurrent: true}
	refs := map[string]*Resp{}
	for k := 0; k < 240; k++ {
		in := FormatInputLayout(SubSeed(seed, "in", r.Intn(40)), r.Intn(3))
		if bytes.Contains(in, []byte{0}) || len(in) > 200000 {
			continue
		}
		ref, ok := refs[string(in)]
		if !ok {
			var err error
			if ref, err = formatRef(pool, in); err != nil {
				return err
			}
			refs[string(in)] = ref
		}
		if ref.TimedOut || ref.Crashed != "" || ref.ParsePanic != "" {
			continue
		}
		spec.Calls = append(spec.Calls, HostCall{Thread: r.Intn(spec.Threads), Input: in})
	}
	run := func() (int, *c16Viol, error) {
		res, err := runHost(c, spec, true)
		if err != nil || res == nil {
			return -1, nil, err
		}
		for k, call := range spec.Calls {
			if v := checkHostCall(refs[string(call.Input)], &res[k]); v != nil {
				return k, v, nil
			}
		}
		return -1, nil, nil
	}
	k, v, err := run()
	if err != nil {
		return err
	}
	c.ev.Count("concurrent_host_histories", 1)
	c.ev.Fire("host_threads_truly_concurrent", len(spec.Calls))
	if v == nil {
		return nil
	}
	// confirm by repetition
	again := 0
	for t := 0; t < 5; t++ {
		if _, v2, err := run(); err == nil && v2 != nil {
			again++
		}
	}
	if again == 0 {
		c.ev.Count("unconfirmed_candidates", 1)
		c.logf("concurrent host mismatch (history %d, call %d, %s) did not recur in 5 repetitions: not reported", i, k, v.class)
		return nil
	}
	rf := &ReplayFile{Property: "C16", Kind: "so-c16-concurrent", RunSeed: c.Seed, Case: i, Host: spec, Expect: map[string]any{"entry": "FormatPacketDslExport", "class": v.class, "recurred_in_5_repetitions": again}}
	c.report("C16|lib|concurrent|"+v.class, "with 8 host threads inside the exported function at once: "+v.msg+" (uncontrolled interleaving; replays statistically)", v.diffs, rf)
	return nil
}

func checkHostCall(ref *Resp, got *hostResult) *c16Viol {
	if got.Panic != "" {
		return &c16Viol{"panic", "the exported function panicked: " + got.Panic, nil}
	}
	if ref.FormatOK {
		if !bytes.Equal(got.Output, ref.FormatOut) {
			return &c16Viol{"return", fmt.Sprintf("FormatPacketDslExport returns %q, the formatter's result is %q", clip(string(got.Output), 160), clip(string(ref.FormatOut), 160)), allDiffLines(ref.FormatOut, got.Output)}
		}
	} else if !bytes.HasPrefix(got.Output, []byte("Error:")) {
		return &c16Viol{"no-error-prefix", fmt.Sprintf("FormatPacketDslExport returns %q for a syntax error (no 'Error:' prefix)", clip(string(got.Output), 160)), nil}
	}
	if got.LateRead && !bytes.Equal(got.Late, got.Output) {
		// the caller owns the returned string until it frees it
		return &c16Viol{lateClass, fmt.Sprintf("the string FormatPacketDslExport returned read %q right after the call and %q when the host read it again before freeing it, after later calls", clip(string(got.Output), 160), clip(string(got.Late), 160)), allDiffLines(got.Output, got.Late)}
	}
	return nil
}

const lateClass = "result-changed-after-return"

func runHost(c *Ctx, spec *HostSpec, realSO bool) ([]hostResult, error) {
	dir, err := os.MkdirTemp(c.sc.Work, "host")
	if err != nil {
		return nil, infraf("host dir: %v", err)
	}
	defer os.RemoveAll(dir)
	sp := *spec
	sp.Out = filepath.Join(dir, "out.json")
	specPath := filepath.Join(dir, "spec.json")
	if err := os.WriteFile(specPath, mustJSON(sp), 0o644); err != nil {
		return nil, infraf("host spec: %v", err)
	}
	var cmd *exec.Cmd
	if realSO {
		// the C host reads a simple length-prefixed binary file
		var b bytes.Buffer
		fmt.Fprintf(&b, "%d %d\n", sp.Threads, len(sp.Calls))
		for _, cl := range sp.Calls {
			fmt.Fprintf(&b, "%d %d\n", cl.Thread, len(cl.Input))
			b.Write(cl.Input)
			b.WriteByte('\n')
		}
		binSpec := filepath.Join(dir, "spec.bin")
		if err := os.WriteFile(binSpec, b.Bytes(), 0o644); err != nil {
			return nil, infraf("host spec: %v", err)
		}
		if sp.Concurrent {
			cmd = exec.Command(c.sc.CHost, c.sc.RealSO, binSpec, sp.Out, "concurrent")
		} else {
			cmd = exec.Command(c.sc.CHost, c.sc.RealSO, binSpec, sp.Out)
		}
	} else {
		cmd = exec.Command(c.sc.SimCLI)
		cmd.Env = append(os.Environ(), "VERIF_HOST="+specPath)
	}
	if sp.Procs > 0 {
		if cmd.Env == nil {
			cmd.Env = os.Environ()
		}
		cmd.Env = append(cmd.Env, fmt.Sprintf("GOMAXPROCS=%d", sp.Procs))
	}
	cmd.Dir = dir
	var se bytes.Buffer
	cmd.Stderr = &se
	if err := cmd.Start(); err != nil {
		return nil, infraf("host start: %v", err)
	}
	done := make(chan error, 1)
	go func() { done <- cmd.Wait() }()
	select {
	case err := <-done:
		if err != nil {
			if crashLooks.MatchString(se.String()) {
				return nil, &hostCrashErr{fmt.Sprintf("%v: %s", err, clip(firstCrashLine(se.String()), 300))}
			}
			return nil, infraf("host process failed: %v\n%s", err, clip(se.String(), 2000))
		}
	case <-time.After(5 * time.Minute):
		_ = cmd.Process.Kill()
		<-done
		return nil, nil
	}
	data, err := os.ReadFile(sp.Out)
	if err != nil {
		return nil, infraf("host output: %v", err)
	}
	var res []hostResult
	if realSO {
		// binary: per call "<len>\n<bytes>\n"
		rd := bytes.NewReader(data)
		for range sp.Calls {
			var n int
			if _, err := fmt.Fscanf(rd, "%d\n", &n); err != nil {
				return nil, infraf("host output parse: %v", err)
			}
			buf := make([]byte, n)
			if _, err := rd.Read(buf); err != nil && n > 0 {
				return nil, infraf("host output parse: %v", err)
			}
			_, _ = rd.ReadByte()
			res = append(res, hostResult{Output: buf})
		}
	} else if err := json.Unmarshal(data, &res); err != nil {
		return nil, infraf("host output parse: %v", err)
	}
	if len(res) != len(sp.Calls) {
		return nil, infraf("host returned %d results for %d calls", len(res), len(sp.Calls))
	}
	return res, nil
}

// hostCrashErr: the host process died inside or around a call of the export
// (memory corruption reported by the C allocator, a Go runtime fatal error, a
// fatal signal). A C host cannot survive that, and no text was returned.
type hostCrashErr struct{ msg string }

func (e *hostCrashErr) Error() string { return "host process crashed: " + e.msg }

var crashLooks = regexp.MustCompile(`(?m)^(fatal error: |SIGSEGV|SIGABRT|SIGBUS|free\(\): |double free|munmap_chunk\(\)|malloc\(\): |malloc_consolidate|corrupted |realloc\(\): |unexpected signal|signal arrived during cgo|panic: runtime error: cgo)`)

func firstCrashLine(s string) string {
	if loc := crashLooks.FindStringIndex(s); loc != nil {
		rest := s[loc[0]:]
		if i := strings.IndexByte(rest, '\n'); i >= 0 {
			return rest[:i]
		}
		return rest
	}
	return s
}

// candidate16HostCrash: the simulated host died although the reference
// formatter handles every text of the history. Confirmed by repetition,
// minimised by prefix search and by dropping calls.
func (c *Ctx) candidate16HostCrash(caseIdx int, spec *HostSpec, hc *hostCrashErr) {
	c.mu.Lock()
	c.candidates++
	coarse := "C16|lib|host-crash"
	if c.sigSeen["coarse:"+coarse] || c.processed >= 40 {
		c.mu.Unlock()
		return
	}
	c.sigSeen["coarse:"+coarse] = true
	c.processed++
	c.mu.Unlock()
	candMu <- struct{}{}
	defer func() { <-candMu }()
	crashes := func(cs []HostCall) string {
		if len(cs) == 0 {
			return ""
		}
		_, err := runHost(c, spec.like(cs), false)
		if e, ok := err.(*hostCrashErr); ok {
			return e.msg
		}
		return ""
	}
	calls := append([]HostCall(nil), spec.Calls...)
	if crashes(calls) == "" || crashes(calls) == "" {
		c.ev.Count("unconfirmed_candidates", 1)
		c.logf("host crash (history %d: %s) did not recur twice: not reported", caseIdx, hc.msg)
		c.mu.Lock()
		delete(c.sigSeen, "coarse:"+coarse)
		c.mu.Unlock()
		return
	}
	orig := len(calls)
	// shortest crashing prefix
	lo, hi := 1, len(calls)
	for lo < hi {
		mid := (lo + hi) / 2
		if crashes(calls[:mid]) != "" {
			hi = mid
		} else {
			lo = mid + 1
		}
	}
	if crashes(calls[:hi]) != "" {
		calls = calls[:hi]
	}
	for n := len(calls) / 2; n >= 1 && len(calls) > 1; n /= 2 {
		for st := 0; st+n <= len(calls) && len(calls) > 1; {
			cand := append(append([]HostCall(nil), calls[:st]...), calls[st+n:]...)
			if crashes(cand) != "" {
				calls = cand
			} else {
				st += n
			}
		}
		if orig-len(calls) > 120 {
			break
		}
	}
	msg := crashes(calls)
	if msg == "" {
		msg = hc.msg
	}
	rf := &ReplayFile{Property: "C16", Kind: "host-c16-crash", RunSeed: c.Seed, Case: caseIdx, Host: spec.like(calls),
		Expect:    map[string]any{"entry": "FormatPacketDslExport", "class": "host-crash"},
		Original:  map[string]any{"calls": orig},
		Minimised: map[string]any{"calls": len(calls)}}
	c.report(coarse, fmt.Sprintf("the host process dies in a history of %d call(s) of FormatPacketDslExport on texts the formatter handles (host keeps %d result(s) alive, reuses its input buffer: %v, frees every returned string exactly once): %s", len(calls), spec.Hold, spec.ReuseIn, msg), nil, rf)
}

func (c *Ctx) candidate16Host(caseIdx int, spec *HostSpec, k int, v *c16Viol, realSO bool) {
	c.mu.Lock()
	c.candidates++
	coarse := "C16|lib|" + v.class
	if c.sigSeen["coarse:"+coarse] || c.processed >= 40 {
		c.mu.Unlock()
		return
	}
	c.sigSeen["coarse:"+coarse] = true
	c.processed++
	c.mu.Unlock()
	candMu <- struct{}{}
	defer func() { <-candMu }()
	// fails: the LAST call of the history shows the same violation class
	if v.class == lateClass {
		c.candidate16HostLate(caseIdx, spec, v)
		return
	}
	fails := func(calls []HostCall) *c16Viol {
		sp := spec.like(calls)
		last := calls[len(calls)-1]
		ref, err := DoFresh(c.sc.Worker, &Req{Op: "format", DSL: last.Input, Sched: s0()}, 1)
		if err != nil || ref.TimedOut || ref.Crashed != "" || ref.ParsePanic != "" {
			return nil
		}
		res, err := runHost(c, sp, realSO)
		if err != nil || res == nil {
			return nil
		}
		nv := checkHostCall(ref, &res[len(res)-1])
		if nv != nil && nv.class == lateClass {
			nv = nil // the last call's string is freed at once when nothing follows
		}
		if nv == nil {
			nv = c.checkErrorTextCold(ref, last, &res[len(res)-1], realSO)
		}
		if nv != nil && nv.class == v.class {
			return nv
		}
		return nil
	}
	calls := append([]HostCall(nil), spec.Calls[:k+1]...)
	if fails(calls) == nil {
		c.ev.Count("unconfirmed_candidates", 1)
		c.logf("host candidate (history %d, call %d, %s) did not reproduce: not reported", caseIdx, k, v.class)
		// a later candidate of the same class (another history, e.g. a
		// single-threaded one whose hand-overs are fully determined) still
		// gets its chance
		c.mu.Lock()
		delete(c.sigSeen, "coarse:"+coarse)
		c.mu.Unlock()
		return
	}
	orig := len(calls)
	// is the history needed at all?
	if fails(calls[len(calls)-1:]) != nil {
		calls = calls[len(calls)-1:]
	} else {
		// most history defects need one earlier call: try every two-call
		// history [earlier, last] (latest first), then halves, then single drops
		last := calls[len(calls)-1]
		for j, tries := len(calls)-2, 0; j >= 0 && tries < 40; j, tries = j-1, tries+1 {
			if cand := []HostCall{calls[j], last}; fails(cand) != nil {
				calls = cand
				break
			}
		}
		for n := (len(calls) - 1) / 2; n >= 2 && len(calls) > 2; n /= 2 {
			for st := 0; st+n <= len(calls)-1; {
				cand := append(append([]HostCall(nil), calls[:st]...), calls[st+n:]...)
				if fails(cand) != nil {
					calls = cand
				} else {
					st += n
				}
			}
		}
		for i := 0; i < len(calls)-1 && len(calls) > 1; {
			cand := append(append([]HostCall(nil), calls[:i]...), calls[i+1:]...)
			if fails(cand) != nil {
				calls = cand
			} else {
				i++
			}
			if orig-len(calls) > 60 {
				break
			}
		}
	}
	last := calls[len(calls)-1]
	smallIn := ddminBytes(last.Input, func(x []byte) bool {
		if bytes.Contains(x, []byte{0}) {
			return false
		}
		cc := append(append([]HostCall(nil), calls[:len(calls)-1]...), HostCall{Thread: last.Thread, Input: x})
		return fails(cc) != nil
	}, 100)
	calls = append(append([]HostCall(nil), calls[:len(calls)-1]...), HostCall{Thread: last.Thread, Input: smallIn})
	fv := fails(calls)
	if fv == nil {
		fv = v
	}
	kind := "host-c16"
	if realSO {
		kind = "so-c16"
	}
	rf := &ReplayFile{Property: "C16", Kind: kind, RunSeed: c.Seed, Case: caseIdx, Host: spec.like(calls),
		Expect:    map[string]any{"entry": "FormatPacketDslExport", "class": fv.class},
		Original:  map[string]any{"calls": orig},
		Minimised: map[string]any{"calls": len(calls), "last_input_bytes": len(smallIn)}}
	c.report("C16|lib|"+fv.class, fv.msg+fmt.Sprintf(" [history of %d call(s), last input %q]", len(calls), clip(string(smallIn), 120)), fv.diffs, rf)
}

// lateFails runs a history and returns the first call whose returned string
// changed between the host's two readings.
func (c *Ctx) lateFails(sp *HostSpec) (int, *c16Viol) {
	res, err := runHost(c, sp, false)
	if err != nil || res == nil {
		return -1, nil
	}
	for k := range res {
		if res[k].Panic == "" && res[k].LateRead && !bytes.Equal(res[k].Late, res[k].Output) {
			return k, &c16Viol{lateClass, fmt.Sprintf("the string FormatPacketDslExport returned for call %d read %q right after the call and %q when the host read it again before freeing it, after later calls", k, clip(string(res[k].Output), 160), clip(string(res[k].Late), 160)), allDiffLines(res[k].Output, res[k].Late)}
		}
	}
	return -1, nil
}

// candidate16HostLate confirms and minimises a history in which a returned
// string changed while the host still owned it: any call of the history may be
// the victim, so calls are dropped anywhere (pairs first, then halves, then
// single calls).
func (c *Ctx) candidate16HostLate(caseIdx int, spec *HostSpec, v *c16Viol) {
	calls := append([]HostCall(nil), spec.Calls...)
	fails := func(cs []HostCall) *c16Viol {
		if len(cs) == 0 {
			return nil
		}
		_, nv := c.lateFails(spec.like(cs))
		return nv
	}
	if fails(calls) == nil {
		c.ev.Count("unconfirmed_candidates", 1)
		c.logf("host candidate (history %d, %s) did not reproduce: not reported", caseIdx, v.class)
		c.mu.Lock()
		delete(c.sigSeen, "coarse:C16|lib|"+v.class)
		c.mu.Unlock()
		return
	}
	orig := len(calls)
	if k, _ := c.lateFails(spec.like(calls)); k >= 0 {
		// victim followed by one later call, then by everything after it
		for j, tries := k+1, 0; j < len(calls) && tries < 30; j, tries = j+1, tries+1 {
			if cand := []HostCall{calls[k], calls[j]}; fails(cand) != nil {
				calls = cand
				break
			}
		}
		if len(calls) > 2 && fails(calls[k:]) != nil {
			calls = calls[k:]
		}
	}
	for n := len(calls) / 2; n >= 1 && len(calls) > 2; n /= 2 {
		for st := 0; st+n <= len(calls) && len(calls) > 2; {
			cand := append(append([]HostCall(nil), calls[:st]...), calls[st+n:]...)
			if fails(cand) != nil {
				calls = cand
			} else {
				st += n
			}
		}
		if orig-len(calls) > 80 {
			break
		}
	}
	fv := fails(calls)
	if fv == nil {
		fv = v
	}
	rf := &ReplayFile{Property: "C16", Kind: "host-c16-late", RunSeed: c.Seed, Case: caseIdx, Host: spec.like(calls),
		Expect:    map[string]any{"entry": "FormatPacketDslExport", "class": fv.class},
		Original:  map[string]any{"calls": orig},
		Minimised: map[string]any{"calls": len(calls)}}
	c.report("C16|lib|"+fv.class, fv.msg+fmt.Sprintf(" [history of %d call(s), host keeps %d result(s) alive, reuses its input buffer: %v]", len(calls), spec.Hold, spec.ReuseIn), fv.diffs, rf)
}

// ---- compile ----

type compileCase struct {
	targets  []string
	long     bool
	sub      bool
	abs      bool
	dirs     map[string]string // target -> sandbox-relative, clean output dir ("." = the sandbox root)
	spell    map[string]string // target -> how the directory is spelled on the command line (default: as in dirs)
	stale    bool
	nested   bool
	attached bool // -fin.dsl -gout: short flags with the value attached
	fifoIn   bool // the DSL arrives through a named pipe
	eq       bool // --flag=value / -f=value forms
	fileLast bool // the -f flag after the output flags
	repeat   bool // the first output flag given twice
	// argv-shape sweep: explicit spelling of the file flag and of the output
	// flags (0 = derived from long/eq/attached as above; 1 "-f v", 2 "-fv",
	// 3 "-f=v", 4 "--file v", 5 "--file=v")
	fileSpell, flagSpell int
	// inName: name of the DSL file on disk and on the command line ("" =
	// in.dsl): names that are also glob patterns, next to a file the pattern
	// matches; names with blanks and leading dashes
	inName string
}

func (cc *compileCase) in() string {
	if cc.inName != "" {
		return cc.inName
	}
	return "in.dsl"
}

func spellFlag(short, long, value string, mode int) []string {
	switch mode {
	case 1:
		return []string{short, value}
	case 2:
		return []string{short + value}
	case 3:
		return []string{short + "=" + value}
	case 4:
		return []string{long, value}
	default:
		return []string{long + "=" + value}
	}
}

func (cc *compileCase) spelled(t string) string {
	if s, ok := cc.spell[t]; ok {
		return s
	}
	return cc.dirs[t]
}

// under joins a sandbox-relative directory and a file name.
func under(dir, name string) string {
	if dir == "." || dir == "" {
		return name
	}
	return dir + "/" + name
}

func (cc *compileCase) argv() []string {
	var argv []string
	if cc.sub {
		argv = append(argv, "compile")
	}
	pre := ""
	if cc.abs {
		pre = "{SB}/"
	}
	flag := func(name, value string) []string {
		if cc.eq {
			return []string{name + "=" + value}
		}
		if cc.attached && !cc.long {
			return []string{name + value}
		}
		return []string{name, value}
	}
	var file []string
	if cc.fileSpell > 0 {
		file = spellFlag("-f", "--file", cc.in(), cc.fileSpell)
	} else if cc.long {
		file = flag("--file", cc.in())
	} else {
		file = flag("-f", cc.in())
	}
	if !cc.fileLast {
		argv = append(argv, file...)
	}
	for k, t := range cc.targets {
		name := TargetFlagShort[t]
		if cc.long {
			name = TargetFlagLong[t]
		}
		if cc.repeat && k == 0 {
			// a repeated flag: the last value counts, the first directory must stay untouched
			argv = append(argv, flag(name, pre+"overridden_"+t)...)
		}
		if cc.flagSpell > 0 {
			argv = append(argv, spellFlag(TargetFlagShort[t], TargetFlagLong[t], pre+cc.spelled(t), cc.flagSpell)...)
			continue
		}
		argv = append(argv, flag(name, pre+cc.spelled(t))...)
	}
	if cc.fileLast {
		argv = append(argv, file...)
	}
	return argv
}

func cleanFiles(st *Step) map[string]FileOut {
	out := map[string]FileOut{}
	for n, f := range st.Files {
		out[filepath.Clean(n)] = f
	}
	return out
}

var unrelated = []DiskEntry{
	{Path: "README.md", Kind: "file", Data: []byte("unrelated\n")},
	{Path: "out/keep.txt", Kind: "file", Data: []byte("keep me\n")},
	{Path: "elsewhere/lib.rs", Kind: "file", Data: []byte("// not yours\n")},
}

func c16Compile(c *Ctx, pool *Pool, i int, thorough bool) error {
	seed := SubSeed(c.Seed, "c16comp", i)
	r := NewRng(seed)
	prog := GenProgSized(seed, i%12 == 5) // every twelfth program is a big protocol (outputs beyond 64 KiB)
	if i%12 == 5 {
		c.ev.Fire("big_program", 1)
	}
	text := prog.Render()
	// invocations: six single-target, four multi-target
	var sets [][]string
	for _, t := range AllTargets {
		sets = append(sets, []string{t})
	}
	sets = append(sets, AllTargets)
	degenerate := i%10 == 7
	if degenerate {
		// no packet at all: lua, python and c++ need a root packet, the others do not
		prog = GenDegenerate(seed)
		text = prog.Render()
		sets = [][]string{{"rust"}, {"go"}, {"java"}, {"rust", "go"}, {"rust", "go", "java"}}
		c.ev.Fire("degenerate_program", 1)
	}
	for k := 0; k < 3 && !degenerate; k++ {
		var ts []string
		for _, t := range AllTargets {
			if r.Chance(1, 2) {
				ts = append(ts, t)
			}
		}
		if len(ts) >= 2 {
			sets = append(sets, ts)
		}
	}
	for _, ts := range sets {
		// the generators' file set for exactly this invocation: same targets,
		// CLI order, one shared model, reference schedule
		ref, err := pool.Do(&Req{Op: "gen", DSL: []byte(text), History: ts, Sched: s0(), WantBytes: true})
		if err != nil {
			return err
		}
		c.ev.AddRecord(&ref.Rec)
		if validity(ref) != "OK" {
			c.ev.Count("compile_programs_skipped_rejected", 1)
			return nil
		}
		skip := false
		for _, st := range ref.Steps {
			if st.Panic != "" || st.Err != "" {
				skip = true
			}
		}
		if skip {
			c.ev.Count("compile_invocations_skipped_generator_panics", 1)
			continue
		}
		cc := &compileCase{targets: ts, long: r.Chance(1, 2), sub: r.Chance(1, 2), abs: r.Chance(1, 3), dirs: map[string]string{}, spell: map[string]string{}, stale: r.Chance(1, 2), nested: r.Chance(1, 3), eq: r.Chance(1, 4), fileLast: r.Chance(1, 4), repeat: r.Chance(1, 8), attached: r.Chance(1, 5), fifoIn: r.Chance(1, 10)}
		// flat layout: some or all targets share one output directory (file
		// names of different languages do not collide, the union must appear)
		shared := len(ts) >= 2 && r.Chance(1, 4)
		sharedAll := r.Chance(1, 2)
		for k, t := range ts {
			d := targetDir[t]
			if shared && (sharedAll || k%2 == 0) {
				d = "out/all"
			}
			if cc.nested {
				d = "gen/" + d + "/v1"
			}
			// directory names that look like subcommands, and spellings that
			// filepath.Clean would alter (trailing slash, ./, doubled slash, ".")
			if !shared && !cc.nested && r.Chance(1, 8) {
				nd := r.Pick([]string{"format", "compile", "help", "completion"})
				taken := false
				for _, od := range cc.dirs {
					if od == nd {
						taken = true // one directory per target unless the layout is deliberately shared
					}
				}
				if !taken {
					d = nd
				}
			}
			if !shared && r.Chance(1, 10) {
				// characters that flag parsers, CSV splitters and shells care about
				d = r.Pick([]string{"build/codec,v2", "my out", "k=v", "输出", "a,b,c", "semi;colon", "quo'te"}) + "/" + t
				c.ev.Fire("argv_odd_characters_in_dir", 1)
			}
			cc.dirs[t] = d
			switch r.Intn(10) {
			case 0:
				cc.spell[t] = d + "/"
			case 1:
				cc.spell[t] = "./" + d
			case 2:
				cc.spell[t] = strings.Replace(d, "/", "//", 1)
			case 3:
				if len(ts) == 1 && !cc.abs {
					cc.dirs[t], cc.spell[t] = ".", "."
				}
			}
		}
		if len(cc.spell) > 0 {
			c.ev.Fire("argv_unclean_dir_spelling", 1)
		}
		// an output directory that is a symlink to a directory elsewhere in the
		// sandbox: the files must arrive behind the link
		var links []DiskEntry
		if !shared && r.Chance(1, 5) {
			t := ts[r.Intn(len(ts))]
			unique := true
			for u, od := range cc.dirs {
				if u != t && (od == cc.dirs[t] || strings.HasPrefix(od, cc.dirs[t]+"/") || strings.HasPrefix(cc.dirs[t], od+"/")) {
					unique = false
				}
			}
			if cc.dirs[t] != "." && unique {
				if _, respelled := cc.spell[t]; !respelled {
					link := cc.dirs[t]
					realDir := "store/" + t + "_real"
					depth := strings.Count(link, "/")
					links = append(links, DiskEntry{Path: realDir, Kind: "dir"}, DiskEntry{Path: link, Kind: "symlink", Target: strings.Repeat("../", depth) + realDir})
					cc.spell[t] = link
					cc.dirs[t] = realDir
					cc.stale = false
					c.ev.Fire("disk0_symlinked_output_dir", 1)
				}
			}
		}
		// ... or an ANCESTOR of every output directory is a symlink and the
		// directories themselves do not exist yet (lexical and resolved paths
		// disagree until they have been created)
		if links == nil && r.Chance(1, 6) {
			all := true
			for _, t := range ts {
				if !strings.HasPrefix(cc.dirs[t], "out/") {
					all = false
				}
				if _, respelled := cc.spell[t]; respelled {
					all = false
				}
			}
			if all {
				links = append(links, DiskEntry{Path: "store/out_real", Kind: "dir"}, DiskEntry{Path: "lnk", Kind: "symlink", Target: "store/out_real"})
				for _, t := range ts {
					rest := strings.TrimPrefix(cc.dirs[t], "out/")
					cc.spell[t] = "lnk/" + rest
					cc.dirs[t] = "store/out_real/" + rest
				}
				cc.stale = false
				c.ev.Fire("disk0_symlinked_ancestor_missing_leaf", 1)
			}
		}
		if shared {
			c.ev.Fire("disk0_shared_output_dir", 1)
		}
		if !shared && !cc.nested && len(ts) >= 2 && r.Chance(1, 5) {
			// sibling directories whose names are string prefixes of one another,
			// the longer name on the earlier target: gen_x_x, gen_x, gen
			base := r.Pick([]string{"gen", "out", "build/o"})
			sep := r.Pick([]string{"_rs", "-x", "2", "x"})
			for k, t := range ts {
				cc.dirs[t] = base + strings.Repeat(sep, len(ts)-1-k)
				delete(cc.spell, t)
			}
			links = nil
			c.ev.Fire("disk0_prefix_sibling_dirs", 1)
		}
		// timestamps: the DSL may be older or newer than what is already in the output directories
		staleKind := r.Intn(5)
		if r.Chance(1, 2) {
			staleKind = 0 // half of the stale worlds use uniformly longer files
		}
		dslAge, staleAge := 0, 0
		switch r.Intn(3) {
		case 0:
			dslAge = 3600
		case 1:
			staleAge = 7200
		}
		// the DSL under a name that is also a glob pattern, next to a file the
		// pattern matches (another, valid protocol); a name with a blank
		var inSiblings []DiskEntry
		if ir := NewRng(SubSeed(seed, "inname", len(ts)*7+len(cc.dirs))); !cc.fifoIn && ir.Chance(1, 5) {
			other := []byte("root packet MatchedByThePattern {\n    u8 a `x`,\n    u16 b `y`,\n}\n")
			switch ir.Intn(3) {
			case 0:
				cc.inName = "v[1].dsl"
				inSiblings = []DiskEntry{{Path: "v1.dsl", Kind: "file", Data: other}}
			case 1:
				cc.inName = "what?*.dsl"
				inSiblings = []DiskEntry{{Path: "whats-up.dsl", Kind: "file", Data: other}, {Path: "what?*.dsl.dsl", Kind: "file", Data: other}}
			default:
				cc.inName = "my proto {a,b}.dsl"
				inSiblings = []DiskEntry{{Path: "my proto a.dsl", Kind: "file", Data: other}}
			}
			c.ev.Fire("input_name_is_a_glob_pattern_with_matching_sibling", 1)
		}
		disk := []DiskEntry{{Path: cc.in(), Kind: "file", Data: []byte(text), AgeSec: dslAge}}
		disk = append(disk, inSiblings...)
		if cc.fifoIn {
			disk[0] = DiskEntry{Path: "in.dsl", Kind: "fifo", Data: []byte(text)}
			c.ev.Fire("input_through_named_pipe", 1)
		}
		disk = append(disk, unrelated...)
		disk = append(disk, links...)
		if cc.stale {
			c.ev.Fire("disk0_stale_files", 1)
			for _, st := range ref.Steps {
				cf := cleanFiles(&st)
				for _, n := range sortedFileNames(cf) {
					f := cf[n]
					disk = append(disk, DiskEntry{Path: under(cc.dirs[st.Target], n), Kind: "file", AgeSec: staleAge, Stale: true, Data: staleVariant(f.Data, staleKind+len(disk))})
				}
				disk = append(disk, DiskEntry{Path: under(cc.dirs[st.Target], "unrelated_old_file.txt"), Kind: "file", Data: []byte("old\n")})
			}
		} else if r.Chance(1, 2) {
			c.ev.Fire("disk0_existing_dirs", 1)
			for _, t := range ts {
				if cc.dirs[t] != "." && !strings.HasPrefix(cc.dirs[t], "store/") {
					disk = append(disk, DiskEntry{Path: cc.dirs[t], Kind: "dir"})
				}
			}
		} else {
			c.ev.Fire("disk0_missing_dirs", 1)
		}
		w := &CLIWorld{Argv: cc.argv(), Disk0: disk, Sched: s0()}
		if r.Chance(1, 8) {
			// every write to standard output fails (full disk behind a redirected log)
			w.StdoutKind = "devfull"
			c.ev.Fire("stdout_write_error_ENOSPC", 1)
		}
		o, err := c.sc.RunCLI(w)
		if err != nil {
			return err
		}
		c.ev.AddRecord(&o.Rec)
		c.ev.Count("cli_worlds", 1)
		if o.TimedOut {
			c.mu.Lock()
			c.inconclusive++
			c.mu.Unlock()
			continue
		}
		c.event(fmt.Sprintf("c16comp|%d|%s", i, strings.Join(ts, "+")), w.Argv, diskPaths(disk), o.Exit, treeSig(o, ""), opSig(o))
		c.ev.MarkDistinct(fmt.Sprintf("compile|%x|%s|%v%v%v%v%v", seed, strings.Join(ts, "+"), cc.long, cc.sub, cc.abs, cc.stale, cc.nested))
		if i == 0 && len(ts) == 6 {
			c.ev.AddSample(map[string]any{"entry": "compile", "argv": w.Argv, "disk0_paths": diskPaths(disk), "program": text}, 6)
		}
		if v := checkCompile(ref, o, cc); v != nil {
			c.candidate16Compile(i, prog, cc, disk, v, w.StdoutKind)
			continue
		}
		// the other spelling must give the identical tree
		cc2 := *cc
		cc2.sub = !cc.sub
		w2 := &CLIWorld{Argv: cc2.argv(), Disk0: disk, Sched: s0(), StdoutKind: w.StdoutKind}
		o2, err := c.sc.RunCLI(w2)
		if err != nil {
			return err
		}
		c.ev.AddRecord(&o2.Rec)
		c.ev.Count("cli_worlds", 1)
		if !o2.TimedOut && treeSig(o, "") != treeSig(o2, "") {
			c.candidate16Compile(i, prog, &cc2, disk, &c16Viol{"spelling", fmt.Sprintf("`%s` and `%s` leave different trees", strings.Join(cc.argv(), " "), strings.Join(cc2.argv(), " ")), nil}, "")
		}
	}
	return nil
}

// c16ArgvSweep: the argument handling is a product space (subcommand word or
// not, spelling of the file flag, spelling of the output flag, flag order,
// shape of the directory value), and argument rewriting bugs live in single
// cells of it. One small program goes through EVERY cell; the target rotates.
func c16ArgvSweep(c *Ctx, pool *Pool, j int) error {
	seed := SubSeed(c.Seed, "c16argv", j)
	prog := GenProgSized(seed, false)
	text := prog.Render()
	refs := map[string]*Resp{}
	for _, t := range AllTargets {
		ref, err := pool.Do(&Req{Op: "gen", DSL: []byte(text), History: []string{t}, Sched: s0(), WantBytes: true})
		if err != nil {
			return err
		}
		if validity(ref) != "OK" || ref.Steps[0].Panic != "" || ref.Steps[0].Err != "" {
			continue
		}
		refs[t] = ref
	}
	if len(refs) == 0 {
		return nil
	}
	values := []string{"out/x", "format", "compile", "help", "completion", "-dash", "out dir", "--file", "-f"}
	type cell struct {
		sub, fileLast      bool
		fs, ts, vi, target int
	}
	var cells []cell
	n := 0
	for _, sub := range []bool{false, true} {
		for _, fl := range []bool{false, true} {
			for fs := 1; fs <= 5; fs++ {
				for ts := 1; ts <= 5; ts++ {
					for vi := range values {
						cells = append(cells, cell{sub, fl, fs, ts, vi, n % len(AllTargets)})
						n++
					}
				}
			}
		}
	}
	return ParallelFor(len(cells), c.Workers, func(k int) error {
		ce := cells[k]
		t := AllTargets[ce.target]
		ref := refs[t]
		if ref == nil {
			return nil
		}
		cc := &compileCase{targets: []string{t}, sub: ce.sub, fileLast: ce.fileLast, fileSpell: ce.fs, flagSpell: ce.ts, dirs: map[string]string{t: values[ce.vi]}, spell: map[string]string{}}
		disk := append([]DiskEntry{{Path: "in.dsl", Kind: "file", Data: []byte(text)}}, unrelated...)
		w := &CLIWorld{Argv: cc.argv(), Disk0: disk, Sched: s0()}
		o, err := c.sc.RunCLI(w)
		if err != nil {
			return err
		}
		c.ev.AddRecord(&o.Rec)
		c.ev.Count("cli_worlds", 1)
		c.ev.Count("argv_shape_cells", 1)
		if o.TimedOut {
			return nil
		}
		c.event(fmt.Sprintf("c16argv|%d|%d", j, k), w.Argv, o.Exit, treeSig(o, ""), opSig(o))
		c.ev.MarkDistinct(fmt.Sprintf("argv|%x|%d", seed, k))
		if v := checkCompile(ref, o, cc); v != nil {
			c.candidate16Compile(1000000+j, prog, cc, disk, v, "")
		}
		return nil
	})
}

func sortedFileNames(m map[string]FileOut) []string {
	out := make([]string, 0, len(m))
	for k := range m {
		out = append(out, k)
	}
	sort.Strings(out)
	return out
}

func diskPaths(d []DiskEntry) []string {
	var out []string
	for _, e := range d {
		out = append(out, e.Kind+":"+e.Path)
	}
	return out
}

func checkCompile(ref *Resp, o *CLIOutcome, cc *compileCase) *c16Viol {
	if o.Exit != 0 {
		return &c16Viol{"exit", fmt.Sprintf("compile exits %d on a well-formed program (stdout tail %q)", o.Exit, clip(tail(string(o.Stdout), 200), 200)), nil}
	}
	// expected final content of every requested directory
	expected := map[string]FileOut{} // sandbox-relative path -> content
	for _, st := range ref.Steps {
		for n, f := range cleanFiles(&st) {
			expected[under(cc.dirs[st.Target], n)] = f // later targets overwrite earlier ones in a shared dir, as the CLI does
		}
	}
	for _, p := range sortedFileNames(expected) {
		f := expected[p]
		e, ok := o.After[p]
		if !ok || e.Kind != "file" {
			return &c16Viol{"missing:" + targetOfPath(cc, p), fmt.Sprintf("compile did not write %s, which the generator produced", p), nil}
		}
		if e.Sha != f.Sha {
			return &c16Viol{"bytes:" + targetOfPath(cc, p), fmt.Sprintf("compile wrote %s with different bytes than the generator produced", p), allDiffLines(f.Data, e.Data)}
		}
	}
	cr, mo, rm := o.changed()
	allowedDir := func(p string) bool {
		for _, d := range cc.dirs {
			if d == "." {
				// the sandbox root itself was requested: directories the generators' files need
				if p == "." {
					return true
				}
				for e := range expected {
					if strings.HasPrefix(e, p+"/") {
						return true
					}
				}
				continue
			}
			if d == p || strings.HasPrefix(d, p+"/") || strings.HasPrefix(p, d+"/") {
				return true
			}
		}
		return false
	}
	for _, p := range cr {
		if _, ok := expected[p]; ok {
			continue
		}
		if o.After[p].Kind == "dir" && allowedDir(p) {
			continue
		}
		return &c16Viol{"extra-file", fmt.Sprintf("compile created %s, which no requested generator produced", p), nil}
	}
	for _, p := range mo {
		if _, ok := expected[p]; ok {
			continue
		}
		return &c16Viol{"unrelated-touched", fmt.Sprintf("compile modified %s, which is not part of the generators' file set", p), nil}
	}
	if len(rm) > 0 {
		return &c16Viol{"unrelated-touched", fmt.Sprintf("compile removed %v", rm), nil}
	}
	for _, op := range o.Rec.Ops {
		if !op.Write {
			continue
		}
		if op.Escaped || strings.HasPrefix(op.Path, "OUTSIDE:") {
			return &c16Viol{"escape", fmt.Sprintf("compile issued a write-class operation outside the sandbox: %s %s", op.Op, op.Path), nil}
		}
		where := op.Path
		if op.Real != "" {
			where = op.Real // symlinks resolved: where the operation really lands
		}
		if _, ok := expected[where]; ok {
			continue
		}
		if allowedDir(where) && strings.HasPrefix(op.Op, "mkdir") {
			continue
		}
		// anything that lands INSIDE a requested directory is the wrapper's own
		// business (temp file + rename, say); what it leaves behind there is
		// judged by the tree comparison above, not by the op log
		inside := false
		for _, d := range cc.dirs {
			if d == "." || where == d || strings.HasPrefix(where, d+"/") {
				inside = true
			}
		}
		if op.Path2 != "" && inside {
			to := op.Path2
			if op.Real2 != "" {
				to = op.Real2
			}
			inside = false
			for _, d := range cc.dirs {
				if d == "." || strings.HasPrefix(to, d+"/") {
					inside = true
				}
			}
		}
		if inside {
			continue
		}
		return &c16Viol{"write-elsewhere", fmt.Sprintf("compile issued a write-class operation outside the generators' file set: %s %s", op.Op, op.Path), nil}
	}
	return nil
}

func targetOfPath(cc *compileCase, p string) string {
	best := ""
	for t, d := range cc.dirs {
		if d == "." && best == "" {
			best = t
			continue
		}
		if strings.HasPrefix(p, d+"/") && len(d) > len(cc.dirs[best]) {
			best = t
		}
	}
	return best
}

func tail(s string, n int) string {
	if len(s) > n {
		return s[len(s)-n:]
	}
	return s
}

func (c *Ctx) candidate16Compile(caseIdx int, prog *Prog, cc *compileCase, disk []DiskEntry, v *c16Viol, stdoutKind string) {
	c.mu.Lock()
	c.candidates++
	coarse := "C16|compile|" + strings.SplitN(v.class, ":", 2)[0]
	if c.sigSeen["coarse:"+coarse] || c.processed >= 40 {
		c.mu.Unlock()
		return
	}
	c.sigSeen["coarse:"+coarse] = true
	c.processed++
	c.mu.Unlock()
	candMu <- struct{}{}
	defer func() { <-candMu }()
	mkDisk := func(p *Prog, keepStale bool) []DiskEntry {
		var d []DiskEntry
		for _, e := range disk {
			if e.Path == cc.in() {
				e.Data = []byte(p.Render())
			} else if !keepStale && e.Stale {
				continue
			}
			d = append(d, e)
		}
		return d
	}
	fails := func(p *Prog, cs *compileCase, keepStale bool) (*c16Viol, *CLIWorld) {
		text := []byte(p.Render())
		ref, err := DoFresh(c.sc.Worker, &Req{Op: "gen", DSL: text, History: cs.targets, Sched: s0(), WantBytes: true}, 1)
		if err != nil || validity(ref) != "OK" {
			return nil, nil
		}
		for _, st := range ref.Steps {
			if st.Panic != "" || st.Err != "" {
				return nil, nil
			}
		}
		w := &CLIWorld{Argv: cs.argv(), Disk0: mkDisk(p, keepStale), Sched: s0(), StdoutKind: stdoutKind}
		o, err := c.sc.RunCLI(w)
		if err != nil || o.TimedOut {
			return nil, nil
		}
		var nv *c16Viol
		if v.class == "spelling" {
			c2 := *cs
			c2.sub = !cs.sub
			o2, err := c.sc.RunCLI(&CLIWorld{Argv: c2.argv(), Disk0: mkDisk(p, keepStale), Sched: s0()})
			if err == nil && !o2.TimedOut && treeSig(o, "") != treeSig(o2, "") {
				nv = &c16Viol{"spelling", v.msg, nil}
			}
		} else {
			nv = checkCompile(ref, o, cs)
		}
		if nv != nil && strings.SplitN(nv.class, ":", 2)[0] == strings.SplitN(v.class, ":", 2)[0] {
			return nv, w
		}
		return nil, nil
	}
	if nv, _ := fails(prog, cc, true); nv == nil {
		c.ev.Count("unconfirmed_candidates", 1)
		c.logf("compile candidate (case %d, %s) did not reproduce: not reported", caseIdx, v.class)
		c.mu.Lock()
		delete(c.sigSeen, "coarse:"+coarse)
		c.mu.Unlock()
		return
	}
	// shrink: targets, stale disk state, program
	cs := *cc
	for i := 0; i < len(cs.targets) && len(cs.targets) > 1; {
		c2 := cs
		c2.targets = append(append([]string(nil), cs.targets[:i]...), cs.targets[i+1:]...)
		if nv, _ := fails(prog, &c2, true); nv != nil {
			cs = c2
		} else {
			i++
		}
	}
	keepStale := true
	if nv, _ := fails(prog, &cs, false); nv != nil {
		keepStale = false
	}
	small, used := ShrinkProg(prog, func(p *Prog) bool { nv, _ := fails(p, &cs, keepStale); return nv != nil }, 60)
	fv, w := fails(small, &cs, keepStale)
	if fv == nil {
		small = prog
		fv, w = fails(prog, &cs, keepStale)
		if fv == nil {
			return
		}
	}
	rf := &ReplayFile{Property: "C16", Kind: "cli-c16-compile", RunSeed: c.Seed, Case: caseIdx, DSL: small.Render(), History: cs.targets, CLI: w,
		Expect:    map[string]any{"entry": "compile", "class": fv.class, "dirs": cs.dirs, "spelling_with_subcommand": cs.sub},
		Original:  map[string]any{"packets": len(prog.Pkts), "fields": prog.fieldCount(), "targets": cc.targets, "disk0_entries": len(disk)},
		Minimised: map[string]any{"packets": len(small.Pkts), "fields": small.fieldCount(), "targets": cs.targets, "disk0_entries": len(w.Disk0), "shrink_evaluations": used}}
	c.report("C16|compile|"+fv.class, fv.msg+" [argv: "+strings.Join(w.Argv, " ")+"]", fv.diffs, rf)
}

// c16Informational: the I/O-error probe. The property promises nothing under
// I/O errors, so the result only goes into the evidence file.
func c16Informational(c *Ctx, pool *Pool) error {
	in := []byte("root packet P { u8 a, }")
	ref, err := formatRef(pool, in)
	if err != nil || !ref.FormatOK {
		return err
	}
	probe := map[string]any{}
	for _, errno := range []string{"ENOSPC", "EACCES", "EIO"} {
		cfg := s0()
		cfg.FaultOpIndex = 1
		cfg.FaultErrno = errno
		w := &CLIWorld{Argv: []string{"format", "-f", "in.dsl"}, Disk0: []DiskEntry{{Path: "in.dsl", Kind: "file", Data: in}}, Sched: cfg}
		o, err := c.sc.RunCLI(w)
		if err != nil {
			return err
		}
		c.ev.AddRecord(&o.Rec)
		after := o.After["in.dsl"]
		probe["format -f with "+errno+" on the write"] = map[string]any{"exit": o.Exit, "file_bytes_after": after.Size, "file_bytes_before": len(in), "stdout": clip(string(o.Stdout), 200)}
	}
	c.ev.mu.Lock()
	c.ev.Extra["informational_io_error_probe"] = map[string]any{"note": "not asserted: the property makes no promise under I/O errors", "results": probe}
	c.ev.mu.Unlock()
	return nil
}

const c16Rule = "Seeded generation of formatter inputs (well-formed programs under layout/comment noise, token-level corruptions, garbage) and of well-formed programs for compile; every input goes through each entry point as its own OS process over a sandbox directory whose initial state (path shape of the file, siblings, stale longer output files, existing/missing/nested directories) is drawn from the seed, and through host histories of calls to the exported C function on 1-4 simulated host threads (host memory model: returned strings kept alive and read again before they are freed, one reused and scribbled input buffer per thread, same-length overtyped texts; a dying host is a violation), through one exhaustive sweep of compile argument shapes per program (subcommand word x flag order x 5 file-flag spellings x 5 output-flag spellings x 9 directory values), format -f also on NAME_MAX names and in a directory that accepts no new entries; oracle = the library result computed by the same build under the reference schedule. A case is distinct by (input hash) for format, by (program, target set, spelling, disk0 shape) for compile, by history seed for the library; non-trivial = it reached the entry point and was compared."

var c16Assumptions = []string{
	"`format -d \"\"` is excluded (the CLI cannot distinguish it from an absent flag); inputs containing NUL are excluded for argv and C strings (not representable)",
	"inputs on which the reference formatter itself panics, and programs on which a generator panics or which the compiler rejects, are skipped (C11/C12/C07 territory)",
	"format -d may end its output with one newline (Println); format -f must leave exactly the result",
	"byte comparison of multi-target compile invocations is against the generators run with the same targets in the same order on one model (interference between targets is C14's subject)",
	"I/O errors are not asserted: the property promises nothing under them (informational probe only); the two environment faults of format -f (no new directory entries, NAME_MAX names) use the relaxed oracle: a run that exits non-zero or leaves the file byte for byte as it was is not judged (the pinned tree itself prints the error and exits 0 when a write fails), a run that exits 0 and changed the file must have left exactly the result",
	"the host of the C export follows the documented contract: every returned string is freed exactly once with free(), possibly after further calls, and may be read until then; input buffers belong to the host and may change as soon as the call has returned",
	"host calls interleave at call granularity; two threads inside the export at once are not simulated",
}

var _ = sort.Strings

package main

import (
	"fmt"
	"strings"
)

// The workload: a seeded generator of PacketDSL programs that the grammar
// accepts and the semantic checks pass, biased toward the shapes C13, C14 and
// C16 can depend on (several packets, several match fields per packet over
// different key fields, cross-packet references, names colliding after case
// conversion, NUL padding in all its spellings, MetaData-shared attributes).

type FieldKind int

const (
	FBasic FieldKind = iota
	FFixed
	FZFixed
	FDyn
	FObjRef
	FMetaRef
	FInline
	FMatch
	FLength
	FChecksum
)

type Pair struct {
	Keys  []string // one key, or a list
	Value string
}

type Fld struct {
	Kind     FieldKind
	Attrs    []string // attribute lines preceding the field (top level only)
	Repeat   bool
	Type     string // basic type / MetaData name / packet name / length type
	Size     int    // char[n]
	Name     string
	Desc     string
	Inner    []*Fld
	MatchKey string
	Pairs    []Pair
	Target   string // lengthOf target / checksum algorithm
	AttrForm bool   // length/checksum written as attribute + plain field
	charKeys bool   // (generator-internal) a basic key field whose match keys are one-character strings
}

type Pkt struct {
	Name   string
	Root   bool
	Fields []*Fld
}

type MetaDecl struct {
	Type string // basic/fixed/dyn type text, or (Ref) name of an earlier decl
	Ref  bool
	Name string
	Desc string
}

type MetaBlock struct {
	Name  string
	Decls []MetaDecl
}

type Opt struct{ Name, Value string }

type Prog struct {
	Opts        []Opt
	NoOptBlock  bool
	OptsLast    bool
	Metas       []*MetaBlock
	Pkts        []*Pkt // textual order
	Semicolons  bool
	Compact     int // 0 = one construct per line; 1 = the whole program on one line; 2 = several packets per line
}

var intTypes = []string{"u8", "u16", "u32", "u64", "i8", "i16", "i32", "i64"}
var intAliases = []string{"uint8", "uint16", "uint32", "uint64", "int8", "int16", "int32", "int64"}
var floatTypes = []string{"f32", "f64", "float32", "float64"}
var padChars = []string{"'0'", "' '", `'\x00'`}

var words = []string{"Order", "Trade", "Quote", "Logon", "Logout", "Heart", "Beat", "Risk", "Ctrl", "Req", "Rsp", "Ack", "Nack", "Exec", "Report", "Cancel", "Replace", "Market", "Data", "Snap", "Incr", "Book", "Level", "Side", "Price", "Qty", "Acct", "User", "Sess", "Seq", "Body", "Head", "Tail", "Ext", "Info", "Detail", "Leg", "Party", "Fee", "Status"}

type gen struct {
	big        bool
	huge       bool
	inlineUsed []string // inline object names used so far (reused on purpose now and then)
	r     *Rng
	used  map[string]bool
	metas []MetaDecl // all declared metadata, in order
}

func (g *gen) ident(parts int, style int) string {
	for tries := 0; ; tries++ {
		var ws []string
		for i := 0; i < parts; i++ {
			ws = append(ws, g.r.Pick(words))
		}
		var s string
		switch style {
		case 0: // PascalCase
			s = strings.Join(ws, "")
		case 1: // lowerCamel
			s = strings.ToLower(ws[0]) + strings.Join(ws[1:], "")
		case 2: // snake
			s = strings.ToLower(strings.Join(ws, "_"))
		case 3: // Pascal_Snake
			s = strings.Join(ws, "_")
		}
		if tries > 3 {
			s += fmt.Sprint(g.r.Intn(1000))
		}
		if !g.used[s] && !reserved[s] {
			g.used[s] = true
			return s
		}
	}
}

var reserved = map[string]bool{"root": true, "packet": true, "repeat": true, "match": true, "MetaData": true, "options": true, "as": true, "string": true, "char": true, "true": true, "false": true,
	"u8": true, "u16": true, "u32": true, "u64": true, "i8": true, "i16": true, "i32": true, "i64": true, "f32": true, "f64": true}

// spicy are text fragments that trip naive text handling: printf verbs, shell
// and template metacharacters, quotes, backslashes, multi-byte runes.
var spicy = []string{"line one\nline two", "crlf inside\r\nthe literal", "ends with quote '", "\"quoted\"","sep is \\n (LF)", "\\t\\r\\n", "\\0 \\x41 \\u00e9", "%0A%0D", "100% of", "%s", "%d%%", "%v %+v", "%!", "$HOME", "${x}", "<b>&amp;</b>", "{{.}}", "a\\nb", "\\", "'q'", "\"dq\"", "tab\there", "semi;colon", "#hash", "消息\u3000类型", "émoji ☃", "-- dash", "/* c */", "// not a comment", "@tag(1)", "[1, 2]", "trailing "}

func (g *gen) desc() string {
	if g.r.Chance(1, 2) {
		return ""
	}
	if g.r.Chance(1, 4) {
		return "`" + g.r.Pick(spicy) + "`"
	}
	return "`" + g.r.Pick([]string{"消息类型", "body length", "用户名", "price in ticks", "x", "a, b; c", "note: {braces}", "id"}) + "`"
}

func (g *gen) basicType() string {
	switch g.r.Intn(10) {
	case 0, 1, 2, 3, 4:
		return g.r.Pick(intTypes)
	case 5, 6:
		return g.r.Pick(intAliases)
	case 7:
		return g.r.Pick(floatTypes)
	default:
		return "char"
	}
}

// GenProg generates one program. size is a rough scale (1 = small).
func GenProg(seed uint64) *Prog { return GenProgSized(seed, false) }

// GenDegenerate: a program without any packet (the grammar accepts it): only
// options, only MetaData, only a comment, or nothing at all.
func GenDegenerate(seed uint64) *Prog {
	p := GenProg(seed)
	p.Pkts = nil
	r := NewRng(SubSeed(seed, "degenerate", 0))
	switch r.Intn(4) {
	case 0:
		p.Metas = nil
	case 1:
		p.NoOptBlock, p.Opts = true, nil
	case 2:
		p.Metas, p.NoOptBlock, p.Opts = nil, true, nil
	}
	return p
}

// GenProgSized: big = a protocol with dozens of packets and many fields, so
// that single generated files pass size thresholds (64 KiB and more).
// GenProgHuge: 130 to 290 small packets, references as in big programs.
func GenProgHuge(seed uint64) *Prog { return genProg(seed, true, true) }

func GenProgSized(seed uint64, big bool) *Prog { return genProg(seed, big, false) }

func genProg(seed uint64, big, huge bool) *Prog {
	g := &gen{r: NewRng(seed), used: map[string]bool{}, big: big, huge: huge}
	r := g.r
	p := &Prog{Semicolons: r.Chance(3, 4)}
	switch r.Intn(14) {
	case 0:
		p.Compact = 1
	case 1, 2:
		p.Compact = 2
	}
	// options
	if r.Chance(1, 4) {
		p.NoOptBlock = true
	} else {
		if r.Chance(1, 2) {
			p.Opts = append(p.Opts, Opt{"StringPrefixLenType", r.Pick([]string{"u8", "u16", "u32", "u64"})})
		}
		if r.Chance(1, 2) {
			p.Opts = append(p.Opts, Opt{"ArrayPrefixLenType", r.Pick([]string{"u8", "u16", "u32", "u64"})})
		}
		if r.Chance(1, 2) {
			p.Opts = append(p.Opts, Opt{"LittleEndian", r.Pick([]string{"true", "false"})})
		}
		if r.Chance(1, 2) {
			p.Opts = append(p.Opts, Opt{"JavaPackage", `"com.` + strings.ToLower(r.Pick(words)) + `.msg"`})
		}
		if r.Chance(1, 2) {
			p.Opts = append(p.Opts, Opt{"GoPackage", `"` + strings.ToLower(r.Pick(words)) + `"`})
		}
		if r.Chance(1, 3) {
			p.Opts = append(p.Opts, Opt{"GoModule", `"github.com/x/` + strings.ToLower(r.Pick(words)) + `"`})
		}
		if r.Chance(1, 3) {
			p.Opts = append(p.Opts, Opt{"FixedStringPadFromLeft", r.Pick([]string{"true", "false"})})
		}
		if r.Chance(1, 3) {
			p.Opts = append(p.Opts, Opt{"FixedStringPadChar", r.Pick([]string{"'0'", "' '"})})
		}
		p.OptsLast = r.Chance(1, 6)
	}
	// metadata
	nmeta := 0
	if r.Chance(1, 2) {
		nmeta = 1 + r.Intn(2)
	}
	for i := 0; i < nmeta; i++ {
		mb := &MetaBlock{Name: g.ident(1, 0) + "Meta"}
		nd := 1 + r.Intn(5)
		for j := 0; j < nd; j++ {
			d := MetaDecl{Name: g.ident(1+r.Intn(2), r.Intn(2)), Desc: "`" + r.Pick([]string{"meta", "共享字段", "shared"}) + "`"}
			switch {
			case len(g.metas) > 0 && r.Chance(1, 5):
				d.Ref = true
				d.Type = g.metas[r.Intn(len(g.metas))].Name
			case r.Chance(1, 4):
				d.Type = fmt.Sprintf("char[%d]", 1+r.Intn(16))
			case r.Chance(1, 4):
				d.Type = fmt.Sprintf("zchar[%d]", 1+r.Intn(16))
			case r.Chance(1, 6):
				d.Type = r.Pick([]string{"string", "char[]"})
			default:
				d.Type = g.basicType()
			}
			mb.Decls = append(mb.Decls, d)
			g.metas = append(g.metas, d)
		}
		p.Metas = append(p.Metas, mb)
	}
	// packets: DAG order, index 0 is the root
	npk := 1
	switch x := r.Intn(20); {
	case x < 2:
		npk = 1
	case x < 6:
		npk = 2
	case x < 11:
		npk = 3
	case x < 15:
		npk = 4
	case x < 18:
		npk = 5 + r.Intn(3)
	default:
		npk = 8 + r.Intn(5)
	}
	if g.big {
		npk = 45 + r.Intn(25)
	}
	if g.huge {
		npk = 130 + r.Intn(160)
	}
	names := make([]string, npk)
	for i := range names {
		names[i] = g.ident(1+r.Intn(2), 0)
		// names that some platform or target language treats specially
		if i > 0 && r.Chance(1, 12) {
			n := r.Pick(touchyPacketNames)
			if !g.used[n] {
				g.used[n] = true
				names[i] = n
			}
		}
	}
	// names colliding after snake/camel conversion
	if npk >= 3 && r.Chance(1, 4) {
		a := 1 + r.Intn(npk-1)
		b := 1 + r.Intn(npk-1)
		if a != b {
			base := g.r.Pick(words) + g.r.Pick(words)
			i := 1
			for ; i < len(base); i++ {
				if base[i] >= 'A' && base[i] <= 'Z' {
					break
				}
			}
			v1 := base
			v2 := base[:i] + "_" + base[i:]
			if r.Chance(1, 2) {
				v2 = strings.ToLower(base[:1]) + base[1:]
			}
			if !g.used[v1] && !g.used[v2] {
				g.used[v1], g.used[v2] = true, true
				names[a], names[b] = v1, v2
			}
		}
	}
	if r.Chance(1, 10) {
		// a root packet named like a support module of some target's runtime
		n := r.Pick([]string{"Codec", "Checksum", "Bytebuf", "MessageFactory", "Message", "Buffer", "Common", "Types", "Index", "Setup", "Conftest", "Util", "Lib", "Main", "Test", "Init"})
		if !g.used[n] {
			g.used[n] = true
			names[0] = n
		}
	}
	dag := make([]*Pkt, npk)
	for i := npk - 1; i >= 0; i-- {
		dag[i] = g.genPacket(names, i)
	}
	// textual order
	order := make([]int, npk)
	for i := range order {
		order[i] = i
	}
	if r.Chance(2, 3) {
		for i := npk - 1; i > 0; i-- {
			j := r.Intn(i + 1)
			order[i], order[j] = order[j], order[i]
		}
	}
	for _, i := range order {
		p.Pkts = append(p.Pkts, dag[i])
	}
	g.hotMeta(p, NewRng(SubSeed(seed, "hotmeta", 0)))
	return p
}

// hotMeta makes, in some programs, one fixed-string MetaData type a field of
// several packets, each with its own padding attribute (or none): state that
// the parser shares between packets. It draws from its own stream so that the
// rest of the program is the same with and without it.
func (g *gen) hotMeta(p *Prog, rx *Rng) {
	if len(p.Pkts) < 2 || !rx.Chance(1, 4) {
		return
	}
	var fixed []MetaDecl
	for _, d := range g.metas {
		if t := g.resolveMetaType(&d); strings.Contains(t, "char[") && !strings.HasSuffix(t, "char[]") {
			fixed = append(fixed, d)
		}
	}
	var hot MetaDecl
	if len(fixed) > 0 && rx.Chance(2, 3) {
		hot = fixed[rx.Intn(len(fixed))]
	} else {
		name := ""
		for _, n := range []string{"Account", "Trader", "BranchCode", "SecurityCode", "HotText"} {
			if !g.used[n] && !reserved[n] {
				name = n
				break
			}
		}
		if name == "" {
			return
		}
		g.used[name] = true
		hot = MetaDecl{Name: name, Type: fmt.Sprintf("%s[%d]", rx.Pick([]string{"char", "zchar"}), 2+rx.Intn(12)), Desc: "`shared text`"}
		if len(p.Metas) > 0 && rx.Chance(1, 2) {
			mb := p.Metas[rx.Intn(len(p.Metas))]
			mb.Decls = append(mb.Decls, hot)
		} else {
			bn := "SharedMeta"
			if g.used[bn] {
				return
			}
			g.used[bn] = true
			p.Metas = append(p.Metas, &MetaBlock{Name: bn, Decls: []MetaDecl{hot}})
		}
		g.metas = append(g.metas, hot)
	}
	for _, pk := range p.Pkts {
		if !rx.Chance(3, 4) {
			continue
		}
		taken := map[string]bool{}
		for _, f := range pk.Fields {
			taken[f.fieldName()] = true
		}
		f := &Fld{Kind: FMetaRef, Type: hot.Name, Desc: "`shared`"}
		if taken[hot.Name] || rx.Chance(1, 3) {
			f.Name = "hot" + hot.Name
			if taken[f.Name] {
				continue
			}
		}
		if rx.Chance(4, 5) {
			f.Attrs = append(f.Attrs, fmt.Sprintf("@%sPad(%s)", rx.Pick([]string{"left", "right"}), padChars[rx.Intn(3)]))
		}
		pos := rx.Intn(len(pk.Fields) + 1)
		pk.Fields = append(pk.Fields[:pos], append([]*Fld{f}, pk.Fields[pos:]...)...)
	}
}

// packet names that are reserved device names on some platforms or collide
// with words the target languages and their tools give meaning to
var touchyPacketNames = []string{"Con", "Aux", "Nul", "Prn", "COM1", "Lpt1", "Lib", "Mod", "Main", "Test", "Init", "Type", "Class", "Object", "String", "Error", "Self", "Default", "Package", "Import", "List", "Map", "Vec", "Option", "Result", "Enum"}

// field names that are keywords or builtins in exactly some of the targets
var touchyFieldNames = []string{"long", "short", "new", "class", "final", "type", "range", "Map", "func", "Int", "double", "default", "package", "import", "interface", "struct", "enum", "self", "super", "this", "None", "lambda", "def", "return", "async", "yield", "namespace", "template", "operator", "delete", "union", "auto", "volatile", "goto", "var", "let", "fn", "impl", "trait", "pub", "mut", "ref", "local", "nil", "end", "then", "elseif", "Long", "Short", "New", "Final", "Range", "Func"}

// realistic protocol field names, including the spellings naming helpers
// special-case (initialisms, dates, times, sequence numbers)
var specialFieldNames = []string{"A_Side", "T_Plus1Qty", "X_Y", "a_b", "x", "Y", "e_tag", "Px_A", "N_Legs", "i", "_private", "__dunder", "UPPER_SNAKE", "mixed_Case_Name", "trailing_", "digits123", "v2", "HTTPServerURL","ID", "IP", "URL", "UUID", "API", "ClOrdID", "SecurityID", "OrigClOrdID", "orderID", "userId", "TradeDate", "SettlDate", "expire_date", "MaturityDate", "SendingTime", "TransactTime", "Timestamp", "CreatedAt", "MsgSeqNum", "Version", "Checksum", "Len", "Type", "Name", "Value", "Key", "Count", "Flag", "TCPPort", "HTTPCode", "Reserved", "Padding", "Class", "Self", "Default"}

func (g *gen) fieldName(local map[string]bool) string {
	for tries := 0; ; tries++ {
		n := g.r.Pick(words)
		if tries < 3 && g.r.Chance(1, 5) {
			n = g.r.Pick(specialFieldNames)
			if g.r.Chance(1, 3) {
				n = g.r.Pick(touchyFieldNames)
			}
			if !local[n] && !reserved[n] && !g.used[n] {
				local[n] = true
				return n
			}
			continue
		}
		if g.r.Chance(1, 2) {
			n += g.r.Pick(words)
		}
		switch g.r.Intn(4) {
		case 1:
			n = strings.ToLower(n[:1]) + n[1:]
		case 2:
			n = strings.ToLower(n)
		}
		if len(local) > 30 {
			n += fmt.Sprint(g.r.Intn(100000))
		}
		if !local[n] && !reserved[n] && !g.used[n] {
			local[n] = true
			return n
		}
	}
}

func (g *gen) simpleField(local map[string]bool, names []string, idx int, allowInline int) *Fld {
	r := g.r
	f := &Fld{Name: g.fieldName(local), Desc: g.desc()}
	if r.Chance(1, 5) {
		f.Repeat = true
	}
	later := g.laterCount(names, idx)
	x := r.Intn(100)
	switch {
	case x < 30:
		f.Kind, f.Type = FBasic, g.basicType()
	case x < 42:
		f.Kind, f.Size = FFixed, g.fixedSize()
	case x < 52:
		f.Kind, f.Size = FZFixed, g.fixedSize()
	case x < 62:
		f.Kind, f.Type = FDyn, r.Pick([]string{"string", "char[]"})
	case x < 78 && later > 0 && allowInline >= 2: // (references inside inline objects are never resolved by the compiler: generators crash)
		f.Kind = FObjRef
		f.Type = g.pickLater(names, idx, later)
		if r.Chance(1, 3) {
			f.Name = "" // field named after its type
		}
		f.Desc = g.desc()
	case x < 88 && len(g.metas) > 0:
		f.Kind = FMetaRef
		f.Type = g.metas[r.Intn(len(g.metas))].Name
		if r.Chance(1, 3) && !local[f.Type] {
			local[f.Type] = true
			f.Name = ""
		}
	case x < 95 && allowInline > 0:
		f.Kind = FInline
		f.Name = g.ident(1+r.Intn(2), 0)
		if len(g.inlineUsed) > 0 && r.Chance(1, 4) && !local[g.inlineUsed[0]] {
			// the same inline object name in another parent (a different object)
			f.Name = g.inlineUsed[r.Intn(len(g.inlineUsed))]
			if local[f.Name] {
				f.Name = g.ident(2, 0)
			}
		}
		local[f.Name] = true
		g.inlineUsed = append(g.inlineUsed, f.Name)
		f.Desc = ""
		n := 1 + r.Intn(3)
		il := map[string]bool{}
		for i := 0; i < n; i++ {
			f.Inner = append(f.Inner, g.simpleField(il, names, idx, allowInline-1))
		}
	default:
		f.Kind, f.Type = FBasic, g.basicType()
	}
	return f
}

func (g *gen) genPacket(names []string, idx int) *Pkt {
	r := g.r
	pk := &Pkt{Name: names[idx], Root: idx == 0}
	local := map[string]bool{}
	nf := r.Intn(7)
	if r.Chance(1, 10) {
		nf = 7 + r.Intn(4)
	}
	if g.big {
		nf = 10 + r.Intn(14)
	}
	if g.huge {
		nf = 1 + r.Intn(4)
	}
	for i := 0; i < nf; i++ {
		f := g.simpleField(local, names, idx, 2)
		// padding attribute on fixed strings (both kinds), NUL biased
		if (f.Kind == FFixed || f.Kind == FZFixed) && r.Chance(1, 2) {
			pc := padChars[r.Intn(3)]
			if r.Chance(1, 3) {
				pc = `'\x00'`
			}
			f.Attrs = append(f.Attrs, fmt.Sprintf("@%sPad(%s)", r.Pick([]string{"left", "right"}), pc))
		}
		if f.Kind == FMetaRef && r.Chance(1, 6) {
			// padding attribute on a field whose MetaData type is a fixed string
			if d := g.metaByName(f.Type); d != nil && strings.Contains(g.resolveMetaType(d), "char[") && !strings.HasSuffix(g.resolveMetaType(d), "char[]") {
				f.Attrs = append(f.Attrs, fmt.Sprintf("@%sPad(%s)", r.Pick([]string{"left", "right"}), padChars[r.Intn(3)]))
			}
		}
		if r.Chance(1, 8) && f.Kind != FInline {
			f.Attrs = append(f.Attrs, fmt.Sprintf("@tag(%d)", r.Intn(10000)))
		}
		pk.Fields = append(pk.Fields, f)
	}
	later := g.laterCount(names, idx)
	// match fields: 0..3, over distinct or shared key fields
	nmatch := 0
	if later > 0 {
		switch x := r.Intn(10); {
		case x < 3:
			nmatch = 0
		case x < 6:
			nmatch = 1
		case x < 9:
			nmatch = 2
		default:
			nmatch = 3
		}
		if idx == 0 && nmatch == 0 && r.Chance(2, 3) {
			nmatch = 1
		}
	}
	var keyFields []*Fld
	for m := 0; m < nmatch; m++ {
		var key *Fld
		if len(keyFields) > 0 && r.Chance(1, 5) {
			key = keyFields[r.Intn(len(keyFields))]
		} else {
			key = &Fld{Name: g.fieldName(local), Desc: g.desc()}
			switch r.Intn(9) {
			case 0, 1:
				key.Kind, key.Type = FDyn, "string"
			case 2, 3:
				key.Kind, key.Size = FFixed, 1+r.Intn(6)
			case 4:
				// a byte-wide key matched against one-character strings ('A' style message types)
				key.Kind, key.Type = FBasic, r.Pick([]string{"char", "u8", "i8"})
				key.Desc = "`one-char keys`"
				key.charKeys = true
			default:
				key.Kind, key.Type = FBasic, r.Pick(intTypes)
			}
			keyFields = append(keyFields, key)
			// key goes somewhere before the end (may be after the match in text order too)
			pos := r.Intn(len(pk.Fields) + 1)
			pk.Fields = append(pk.Fields[:pos], append([]*Fld{key}, pk.Fields[pos:]...)...)
		}
		mf := &Fld{Kind: FMatch, Name: g.fieldName(local), MatchKey: key.Name}
		np := 1 + r.Intn(4)
		usedKeys := map[string]bool{}
		for i := 0; i < np; i++ {
			pr := Pair{Value: g.pickLater(names, idx, later)}
			nk := 1
			if r.Chance(1, 5) {
				nk = 2 + r.Intn(6)
			}
			for k := 0; k < nk; k++ {
				var ks string
				for tries := 0; ; tries++ {
					if key.Kind == FBasic && key.charKeys {
						ks = `"` + string(rune('A'+r.Intn(26))) + `"`
						if tries > 20 {
							ks = fmt.Sprintf(`"%c%d"`, 'A'+r.Intn(26), r.Intn(100))
						}
					} else if key.Kind == FBasic {
						ks = fmt.Sprint(r.Intn(100 + tries*100))
						if r.Chance(1, 8) {
							ks = r.Pick([]string{"0", "00", "0"}) + ks // 01, 007, 010: legal DIGITS
						}
					} else if tries < 8 {
						ks = `"` + r.Pick([]string{"A", "B", "C", "D", "E", "F", "G", "AA", "AB", "x", "y", "35", "D1"}) + `"`
					} else {
						ks = fmt.Sprintf(`"K%d"`, r.Intn(100000))
					}
					if !usedKeys[ks] {
						usedKeys[ks] = true
						break
					}
				}
				pr.Keys = append(pr.Keys, ks)
			}
			mf.Pairs = append(mf.Pairs, pr)
		}
		pos := r.Intn(len(pk.Fields) + 1)
		pk.Fields = append(pk.Fields[:pos], append([]*Fld{mf}, pk.Fields[pos:]...)...)
	}
	// root: optional length field over some other field (biased to a match field)
	if pk.Root && len(pk.Fields) > 0 && r.Chance(1, 2) {
		var cands, matches []*Fld
		for _, f := range pk.Fields {
			if f.Kind != FLength && f.Kind != FChecksum && f.fieldName() != "" {
				cands = append(cands, f)
				if f.Kind == FMatch {
					matches = append(matches, f)
				}
			}
		}
		if len(matches) > 0 && r.Chance(4, 5) {
			cands = matches
		}
		if len(cands) > 0 {
			tgt := cands[r.Intn(len(cands))]
			lf := &Fld{Kind: FLength, Name: g.fieldName(local), Type: r.Pick([]string{"u8", "u16", "u32", "u64", "uint16", "i32"}), Target: tgt.fieldName(), Desc: g.desc(), AttrForm: r.Chance(1, 3)}
			// usually before its target
			pos := 0
			for i, f := range pk.Fields {
				if f == tgt {
					pos = i
				}
			}
			if r.Chance(1, 6) {
				pos = len(pk.Fields)
			} else {
				pos = r.Intn(pos + 1)
			}
			pk.Fields = append(pk.Fields[:pos], append([]*Fld{lf}, pk.Fields[pos:]...)...)
		}
	}
	// checksum, usually last
	if r.Chance(1, 4) {
		cf := &Fld{Kind: FChecksum, Name: g.fieldName(local), Type: r.Pick([]string{"u8", "u16", "u32", "i32", "uint32"}), Target: `"` + r.Pick([]string{"CRC32", "CRC16", "SUM8", "MD5", "crc32", "Crc16", "sum8", "adler-32", "xor 8"}) + `"`, Desc: g.desc(), AttrForm: r.Chance(1, 3)}
		if r.Chance(5, 6) {
			pk.Fields = append(pk.Fields, cf)
		} else {
			pos := r.Intn(len(pk.Fields) + 1)
			pk.Fields = append(pk.Fields[:pos], append([]*Fld{cf}, pk.Fields[pos:]...)...)
		}
	}
	return pk
}

// In big programs only the last dozen packets ("leaves", which reference
// nothing themselves) can be referenced: the generators expand referenced
// packets recursively in their self-tests, so deep reference chains would
// blow the output up exponentially.
const bigLeaves = 12

func (g *gen) laterCount(names []string, idx int) int {
	later := len(names) - idx - 1
	if g.big {
		if idx >= len(names)-bigLeaves {
			return 0
		}
		return bigLeaves
	}
	return later
}

func (g *gen) pickLater(names []string, idx, later int) string {
	if g.big {
		return names[len(names)-bigLeaves+g.r.Intn(bigLeaves)]
	}
	return names[idx+1+g.r.Intn(later)]
}

// fixedSize: mostly small, now and then payload-sized (the same few sizes, so
// that two fields of one program share a size)
func (g *gen) fixedSize() int {
	if g.r.Chance(1, 12) {
		return []int{255, 256, 257, 300, 512, 1024, 4096}[g.r.Intn(7)]
	}
	if g.r.Chance(1, 15) {
		return 0 // char[0] / zchar[0]: legal, and an edge every generator has an opinion about
	}
	return 1 + g.r.Intn(20)
}

func (g *gen) metaByName(n string) *MetaDecl {
	for i := range g.metas {
		if g.metas[i].Name == n {
			return &g.metas[i]
		}
	}
	return nil
}

func (g *gen) resolveMetaType(d *MetaDecl) string {
	for depth := 0; d != nil && d.Ref && depth < 20; depth++ {
		d = g.metaByName(d.Type)
	}
	if d == nil {
		return ""
	}
	return d.Type
}

// fieldName is the name the model gives the field.
func (f *Fld) fieldName() string {
	if f.Name == "" {
		return f.Type
	}
	return f.Name
}

// ---- rendering ----

type renderStyle struct {
	indent string
	nl     string
}

func (p *Prog) Render() string {
	text := p.renderLines()
	switch p.Compact {
	case 1:
		return strings.Join(tokenize(text), " ") + "\n"
	case 2:
		// packets share source lines: every "}" that closes a packet is followed by the next one on the same line
		return strings.ReplaceAll(text, "}\n\n", "} ")
	}
	return text
}

func (p *Prog) renderLines() string {
	var b strings.Builder
	opts := func() {
		if p.NoOptBlock {
			return
		}
		b.WriteString("options {\n")
		for _, o := range p.Opts {
			b.WriteString("    " + o.Name + " = " + o.Value)
			if p.Semicolons {
				b.WriteString(";")
			}
			b.WriteString("\n")
		}
		b.WriteString("}\n\n")
	}
	if !p.OptsLast {
		opts()
	}
	for _, m := range p.Metas {
		b.WriteString("MetaData " + m.Name + " {\n")
		for _, d := range m.Decls {
			b.WriteString("    " + d.Type + " " + d.Name + " " + d.Desc + ",\n")
		}
		b.WriteString("}\n\n")
	}
	for _, pk := range p.Pkts {
		if pk.Root {
			b.WriteString("root ")
		}
		b.WriteString("packet " + pk.Name + " {\n")
		for _, f := range pk.Fields {
			renderField(&b, f, "    ", true)
		}
		b.WriteString("}\n\n")
	}
	if p.OptsLast {
		opts()
	}
	return b.String()
}

func renderField(b *strings.Builder, f *Fld, ind string, top bool) {
	if top {
		for _, a := range f.Attrs {
			b.WriteString(ind + a + "\n")
		}
	}
	rep := ""
	if f.Repeat {
		rep = "repeat "
	}
	desc := ""
	if f.Desc != "" {
		desc = " " + f.Desc
	}
	switch f.Kind {
	case FBasic, FDyn:
		b.WriteString(ind + rep + f.Type + " " + f.Name + desc + ",\n")
	case FFixed:
		fmt.Fprintf(b, "%s%schar[%d] %s%s,\n", ind, rep, f.Size, f.Name, desc)
	case FZFixed:
		fmt.Fprintf(b, "%s%szchar[%d] %s%s,\n", ind, rep, f.Size, f.Name, desc)
	case FObjRef, FMetaRef:
		if f.Name == "" {
			b.WriteString(ind + rep + f.Type + desc + ",\n")
		} else {
			b.WriteString(ind + rep + f.Type + " " + f.Name + desc + ",\n")
		}
	case FInline:
		b.WriteString(ind + rep + f.Name + " {\n")
		for _, in := range f.Inner {
			renderField(b, in, ind+"    ", false)
		}
		b.WriteString(ind + "},\n")
	case FMatch:
		b.WriteString(ind + "match " + f.MatchKey + " as " + f.Name + " {\n")
		for _, pr := range f.Pairs {
			if len(pr.Keys) == 1 {
				b.WriteString(ind + "    " + pr.Keys[0] + " : " + pr.Value + ",\n")
			} else {
				b.WriteString(ind + "    [" + strings.Join(pr.Keys, ", ") + "] : " + pr.Value + ",\n")
			}
		}
		b.WriteString(ind + "},\n")
	case FLength:
		if f.AttrForm {
			b.WriteString(ind + "@lengthOf(" + f.Target + ")\n" + ind + f.Type + " " + f.Name + desc + ",\n")
		} else {
			b.WriteString(ind + f.Type + " " + f.Name + " @lengthOf(" + f.Target + ")" + desc + ",\n")
		}
	case FChecksum:
		if f.AttrForm {
			b.WriteString(ind + "@calculatedFrom(" + f.Target + ")\n" + ind + f.Type + " " + f.Name + desc + ",\n")
		} else {
			b.WriteString(ind + f.Type + " " + f.Name + " @calculatedFrom(" + f.Target + ")" + desc + ",\n")
		}
	}
}

// ---- structural statistics (for the evidence file and the bias probes) ----

type ProgStats struct {
	Packets         int  `json:"packets"`
	MaxMatchKeys    int  `json:"max_distinct_match_keys_in_a_packet"`
	NulPadding      bool `json:"nul_padding"`
	NameCollision   bool `json:"snake_name_collision"`
	MetaFixedShared bool `json:"metadata_fixed_string"`
	CrossRefs       int  `json:"cross_packet_refs"`
}

func snakeish(s string) string {
	// approximation of strcase.ToSnake good enough to detect collisions
	var b strings.Builder
	for i, c := range s {
		if c == '_' {
			b.WriteByte('_')
			continue
		}
		if c >= 'A' && c <= 'Z' {
			if i > 0 && s[i-1] != '_' && !(s[i-1] >= 'A' && s[i-1] <= 'Z') {
				b.WriteByte('_')
			}
			b.WriteRune(c + 32)
		} else {
			b.WriteRune(c)
		}
	}
	return b.String()
}

func (p *Prog) Stats() ProgStats {
	st := ProgStats{Packets: len(p.Pkts)}
	seen := map[string]bool{}
	for _, pk := range p.Pkts {
		sn := snakeish(pk.Name)
		if seen[sn] {
			st.NameCollision = true
		}
		seen[sn] = true
		keys := map[string]bool{}
		var walk func(fs []*Fld)
		walk = func(fs []*Fld) {
			for _, f := range fs {
				switch f.Kind {
				case FMatch:
					keys[f.MatchKey] = true
					st.CrossRefs += len(f.Pairs)
				case FObjRef:
					st.CrossRefs++
				case FZFixed:
					st.NulPadding = true
				case FInline:
					walk(f.Inner)
				}
				for _, a := range f.Attrs {
					if strings.Contains(a, `\x00`) {
						st.NulPadding = true
					}
				}
			}
		}
		walk(pk.Fields)
		if len(keys) > st.MaxMatchKeys {
			st.MaxMatchKeys = len(keys)
		}
	}
	for _, m := range p.Metas {
		for _, d := range m.Decls {
			if strings.HasPrefix(d.Type, "zchar[") {
				st.NulPadding = true
				st.MetaFixedShared = true
			}
			if strings.HasPrefix(d.Type, "char[") && d.Type != "char[]" {
				st.MetaFixedShared = true
			}
		}
	}
	return st
}

// Clone deep-copies a program (for the shrinker).
func (p *Prog) Clone() *Prog {
	q := *p
	q.Opts = append([]Opt(nil), p.Opts...)
	q.Metas = nil
	for _, m := range p.Metas {
		mm := *m
		mm.Decls = append([]MetaDecl(nil), m.Decls...)
		q.Metas = append(q.Metas, &mm)
	}
	q.Pkts = nil
	for _, pk := range p.Pkts {
		pp := *pk
		pp.Fields = cloneFields(pk.Fields)
		q.Pkts = append(q.Pkts, &pp)
	}
	return &q
}

func cloneFields(fs []*Fld) []*Fld {
	var out []*Fld
	for _, f := range fs {
		ff := *f
		ff.Attrs = append([]string(nil), f.Attrs...)
		ff.Inner = cloneFields(f.Inner)
		ff.Pairs = nil
		for _, pr := range f.Pairs {
			ff.Pairs = append(ff.Pairs, Pair{Keys: append([]string(nil), pr.Keys...), Value: pr.Value})
		}
		out = append(out, &ff)
	}
	return out
}

package main

import (
	"bytes"
	"encoding/json"
	"fmt"
	"os"
	"path/filepath"
	"regexp"
	"sort"
	"strings"
	"sync"
	"time"
)

// Ctx is the state of one check run.
type Ctx struct {
	Prop    string
	Tier    string
	Seed    uint64
	Start   time.Time
	sc      *Scratch
	pool    *Pool
	Workers int

	mu          sync.Mutex
	violations  []*Violation // confirmed, not matched by a known finding
	knownHits   map[string]int
	sigSeen     map[string]bool
	candidates  int
	processed   int
	unseamed    map[string]bool
	inconclusive int

	known *KnownFile
	ev    *Evidence
	quiet bool

	events []string
	ncases int
	warmTries int
}

// event appends one line to the run's event log (determinism self-test): the
// key identifies the world, the parts are hashed.
func (c *Ctx) event(key string, parts ...any) {
	if os.Getenv("VERIF_EVENTLOG") == "" {
		return
	}
	h := uint64(1469598103934665603)
	for _, p := range parts {
		var b []byte
		switch x := p.(type) {
		case string:
			b = []byte(x)
		case []byte:
			b = x
		default:
			b = mustJSON(x)
		}
		for _, y := range b {
			h = (h ^ uint64(y)) * 1099511628211
		}
		h = (h ^ 0xff) * 1099511628211
	}
	c.mu.Lock()
	c.events = append(c.events, fmt.Sprintf("%s %016x", key, h))
	c.mu.Unlock()
}

func (c *Ctx) writeEventLog() {
	p := os.Getenv("VERIF_EVENTLOG")
	if p == "" {
		return
	}
	c.mu.Lock()
	defer c.mu.Unlock()
	sort.Strings(c.events)
	_ = os.WriteFile(p, []byte(strings.Join(c.events, "\n")+"\n"), 0o644)
}

func (c *Ctx) logf(format string, a ...any) {
	if c.quiet {
		return
	}
	fmt.Fprintf(os.Stderr, "[%s %6.1fs] %s\n", c.Prop, time.Since(c.Start).Seconds(), fmt.Sprintf(format, a...))
}

// Violation is one confirmed, minimised counterexample.
type Violation struct {
	Property  string `json:"property"`
	Signature string `json:"signature"`
	Summary   string `json:"summary"`
	Replay    string `json:"replay"`
}

// ---- known findings ----

type KnownFinding struct {
	Property string `json:"property"`
	ID       string `json:"id"`
	What     string `json:"what"`
	// A violation is this finding iff its signature matches SignatureRegex and
	// (when LineRegex is set) every differing line on both sides matches it.
	SignatureRegex string `json:"signature_regex"`
	LineRegex      string `json:"line_regex,omitempty"`
}

type KnownFile struct {
	Findings []KnownFinding `json:"findings"`
	Fixed    []string       `json:"fixed"`
}

func LoadKnown() (*KnownFile, error) {
	var k KnownFile
	data, err := os.ReadFile(filepath.Join(verifRoot, "known_findings.json"))
	if err != nil {
		if os.IsNotExist(err) {
			return &k, nil
		}
		return nil, err
	}
	if err := json.Unmarshal(data, &k); err != nil {
		return nil, fmt.Errorf("known_findings.json: %v", err)
	}
	return &k, nil
}

// Match returns the known finding that covers a violation, if any.
func (k *KnownFile) Match(prop, signature string, diffLines []string) *KnownFinding {
	for i := range k.Findings {
		f := &k.Findings[i]
		if f.Property != prop {
			continue
		}
		re, err := regexp.Compile(f.SignatureRegex)
		if err != nil || !re.MatchString(signature) {
			continue
		}
		if f.LineRegex != "" {
			lre, err := regexp.Compile(f.LineRegex)
			if err != nil {
				continue
			}
			ok := len(diffLines) > 0
			for _, l := range diffLines {
				if !lre.MatchString(l) {
					ok = false
					break
				}
			}
			if !ok {
				continue
			}
		}
		return f
	}
	return nil
}

// ---- evidence ----

type Evidence struct {
	mu       sync.Mutex
	Evals    int
	Distinct map[string]bool
	Samples  []any
	Fired    map[string]int
	Sites    map[string]SiteStat
	SitePerms map[string]map[uint64]bool
	ClockMin int64
	ClockMax int64
	Extra    map[string]any
	Counters map[string]int
}

func NewEvidence() *Evidence {
	return &Evidence{Distinct: map[string]bool{}, Fired: map[string]int{}, Sites: map[string]SiteStat{}, SitePerms: map[string]map[uint64]bool{}, Extra: map[string]any{}, Counters: map[string]int{}, ClockMin: DefaultClockBase, ClockMax: DefaultClockBase}
}

func (e *Evidence) Count(name string, n int) {
	e.mu.Lock()
	e.Counters[name] += n
	e.mu.Unlock()
}

// Fire counts an injected fault / adverse environment state that actually happened.
func (e *Evidence) Fire(kind string, n int) {
	e.mu.Lock()
	e.Fired[kind] += n
	e.mu.Unlock()
}

func (e *Evidence) AddSample(s any, max int) {
	e.mu.Lock()
	if len(e.Samples) < max {
		e.Samples = append(e.Samples, s)
	}
	e.mu.Unlock()
}

// AddRecord merges a world record into the reach tables.
func (e *Evidence) AddRecord(r *Record) {
	e.mu.Lock()
	defer e.mu.Unlock()
	e.Evals++
	for k, v := range r.Fired {
		e.Fired[k] += v
	}
	for k, v := range r.Sites {
		s := e.Sites[k]
		s.Execs += v.Execs
		s.Execs2 += v.Execs2
		s.NonIdentity += v.NonIdentity
		if v.MaxKeys > s.MaxKeys {
			s.MaxKeys = v.MaxKeys
		}
		e.Sites[k] = s
	}
	for _, c := range r.Choices {
		if c.Kind == "mapperm" && c.Chosen != 0 {
			m := e.SitePerms[c.Site]
			if m == nil {
				m = map[uint64]bool{}
				e.SitePerms[c.Site] = m
			}
			if len(m) < 100000 {
				m[c.Chosen^uint64(c.N)<<56] = true
			}
		}
	}
	if r.ClockCalls > 0 {
		if r.ClockMin < e.ClockMin {
			e.ClockMin = r.ClockMin
		}
		if r.ClockMax > e.ClockMax {
			e.ClockMax = r.ClockMax
		}
	}
}

func (e *Evidence) MarkDistinct(sig string) {
	e.mu.Lock()
	e.Distinct[sig] = true
	e.mu.Unlock()
}

// choiceSig is the signature of the perturbing part of a schedule.
func choiceSig(cs []Choice) (string, bool) {
	var b strings.Builder
	non := false
	for _, c := range cs {
		if c.Chosen != 0 && c.N != 1 {
			non = true
			fmt.Fprintf(&b, "%s@%s/%d=%x;", c.Kind, c.Site, c.N, c.Chosen)
		}
	}
	return b.String(), non
}

func (c *Ctx) WriteEvidence(rule string, assumptions []string, realStub map[string]string) error {
	e := c.ev
	e.mu.Lock()
	defer e.mu.Unlock()
	wall := time.Since(c.Start).Seconds()
	siteTable := map[string]any{}
	blind := []string{}
	names := make([]string, 0, len(e.Sites))
	for k := range e.Sites {
		names = append(names, k)
	}
	sort.Strings(names)
	for _, k := range names {
		s := e.Sites[k]
		siteTable[k] = map[string]any{"executions": s.Execs, "executions_ge2_keys": s.Execs2, "non_identity_applied": s.NonIdentity, "max_keys": s.MaxKeys, "distinct_permutations": len(e.SitePerms[k])}
		if s.Execs2 == 0 {
			blind = append(blind, k)
		}
	}
	// seamed map sites never executed at all
	if c.sc != nil && c.sc.Report != nil {
		for _, s := range c.sc.Report.Seams {
			if s.Kind == "maprange" {
				if _, ok := e.Sites[s.Site]; !ok {
					blind = append(blind, s.Site+" (never executed)")
				}
			}
		}
	}
	cov := map[string]any{
		"evaluations":         e.Evals,
		"distinct_nontrivial": len(e.Distinct),
		"rule":                rule,
		"samples":             e.Samples,
		"fault_kinds_fired":   e.Fired,
		"map_site_reach":      siteTable,
		"blind_spots":         blind,
		"simulated_clock_span_s": float64(e.ClockMax-e.ClockMin) / 1e9,
		"runs_per_hour":       int(float64(e.Evals) / wall * 3600),
		"counters":            e.Counters,
		"components":          realStub,
		"candidates":          c.candidates,
		"candidates_minimised": c.processed,
		"inconclusive_worlds": c.inconclusive,
	}
	if c.sc != nil && c.sc.Report != nil {
		cov["seams"] = c.sc.SeamSummary()
		cov["scratch_build_s"] = c.sc.BuildSecs
	}
	if n, ok := e.Counters["traces_validated_against_impl"]; ok {
		cov["traces_validated_against_impl"] = n
	}
	for k, v := range e.Extra {
		cov[k] = v
	}
	known := []string{}
	for k, n := range c.knownHits {
		known = append(known, fmt.Sprintf("%s x%d", k, n))
	}
	sort.Strings(known)
	cov["known_findings_hit"] = known
	doc := map[string]any{
		"property_id": c.Prop,
		"tier":        c.Tier,
		"seed":        int64(c.Seed & 0x7fffffffffffffff),
		"level":       "exploration",
		"coverage":    cov,
		"assumptions": assumptions,
		"wall_s":      wall,
		"violations":  len(c.violations),
	}
	data, err := json.MarshalIndent(doc, "", " ")
	if err != nil {
		return err
	}
	dir := filepath.Join(verifRoot, "evidence")
	_ = os.MkdirAll(dir, 0o755)
	return os.WriteFile(filepath.Join(dir, c.Prop+".json"), data, 0o644)
}

// ---- replay files ----

type ReplayFile struct {
	Property  string         `json:"property"`
	Kind      string         `json:"kind"` // lib-c13 | lib-c14 | cli-c14 | cli-c16-format | cli-c16-compile | host-c16
	RunSeed   uint64         `json:"run_seed"`
	Case      int            `json:"case"`
	Signature string         `json:"signature"`
	Summary   string         `json:"summary"`
	DSL       string         `json:"dsl,omitempty"`
	DSLBytes  []byte         `json:"dsl_bytes,omitempty"` // when the input is not valid UTF-8
	History   []string       `json:"history,omitempty"`
	Sched     *SchedConfig   `json:"sched,omitempty"`
	RefSched  *SchedConfig   `json:"ref_sched,omitempty"`
	Target    string         `json:"target,omitempty"`
	CLI       *CLIWorld      `json:"cli,omitempty"`
	CLIRef    *CLIWorld      `json:"cli_ref,omitempty"`
	Host      *HostSpec      `json:"host,omitempty"`
	Session   []SessionStep  `json:"session,omitempty"`
	Expect    map[string]any `json:"expect,omitempty"`
	Original  map[string]any `json:"original,omitempty"`
	Minimised map[string]any `json:"minimised,omitempty"`
}

func (r *ReplayFile) Input() []byte {
	if r.DSLBytes != nil {
		return r.DSLBytes
	}
	return []byte(r.DSL)
}

func (c *Ctx) WriteReplay(r *ReplayFile) (string, error) {
	dir := filepath.Join(verifRoot, "replays")
	_ = os.MkdirAll(dir, 0o755)
	h := SubSeed(0, r.Signature, 0) & 0xffff
	name := fmt.Sprintf("%s-seed%d-case%d-%04x.json", r.Property, r.RunSeed, r.Case, h)
	p := filepath.Join(dir, name)
	data, err := json.MarshalIndent(r, "", " ")
	if err != nil {
		return "", err
	}
	return p, os.WriteFile(p, data, 0o644)
}

func LoadReplay(p string) (*ReplayFile, error) {
	data, err := os.ReadFile(p)
	if err != nil {
		return nil, err
	}
	var r ReplayFile
	if err := json.Unmarshal(data, &r); err != nil {
		return nil, err
	}
	return &r, nil
}

// knownHit prints the KNOWN-FINDING line once per finding and counts the hit.
func (c *Ctx) knownHit(kf *KnownFinding) {
	c.mu.Lock()
	defer c.mu.Unlock()
	if c.knownHits[kf.ID+": "+kf.What] == 0 {
		fmt.Printf("KNOWN-FINDING: property=%s %s (%s)\n", c.Prop, kf.What, kf.ID)
	}
	c.knownHits[kf.ID+": "+kf.What]++
}

func (c *Ctx) knownTotal() int {
	c.mu.Lock()
	defer c.mu.Unlock()
	n := 0
	for _, v := range c.knownHits {
		n += v
	}
	return n
}

// report registers a confirmed violation. class is what known findings are
// matched against (property|level|target), sig identifies the violation.
func (c *Ctx) report(sig, summary string, diffLines []string, r *ReplayFile) {
	if kf := c.known.Match(c.Prop, sig, diffLines); kf != nil {
		c.knownHit(kf)
		return
	}
	c.mu.Lock()
	defer c.mu.Unlock()
	if c.sigSeen["V:"+sig] {
		return
	}
	c.sigSeen["V:"+sig] = true
	r.Signature = sig
	r.Summary = summary
	path, err := c.WriteReplay(r)
	if err != nil {
		path = "(could not write replay: " + err.Error() + ")"
	}
	v := &Violation{Property: c.Prop, Signature: sig, Summary: summary, Replay: path}
	c.violations = append(c.violations, v)
	fmt.Printf("VIOLATION property=%s replay=%s\n", c.Prop, path)
	fmt.Printf("  %s\n", summary)
}

// ---- small helpers ----

func firstDiffLine(a, b []byte) (int, string, string) {
	la := bytes.Split(a, []byte("\n"))
	lb := bytes.Split(b, []byte("\n"))
	for i := 0; i < len(la) || i < len(lb); i++ {
		var x, y []byte
		if i < len(la) {
			x = la[i]
		}
		if i < len(lb) {
			y = lb[i]
		}
		if !bytes.Equal(x, y) {
			return i + 1, string(x), string(y)
		}
	}
	return 0, "", ""
}

// allDiffLines returns every line that differs position-wise (both sides).
func allDiffLines(a, b []byte) []string {
	la := bytes.Split(a, []byte("\n"))
	lb := bytes.Split(b, []byte("\n"))
	var out []string
	for i := 0; i < len(la) || i < len(lb); i++ {
		var x, y []byte
		if i < len(la) {
			x = la[i]
		}
		if i < len(lb) {
			y = lb[i]
		}
		if !bytes.Equal(x, y) {
			out = append(out, string(x), string(y))
		}
	}
	return out
}

func clip(s string, n int) string {
	if len(s) > n {
		return s[:n] + "…"
	}
	return s
}

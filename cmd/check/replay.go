package main

import (
	"path/filepath"
	"fmt"
	"os"
	"strings"
)

// runReplay executes exactly the world(s) recorded in a replay file against a
// scratch build of the current /repo, in fresh processes, and prints the same
// VIOLATION line iff it fails the same way.
func runReplay(c *Ctx, path string) int {
	rf, err := LoadReplay(path)
	if err != nil {
		fmt.Fprintln(os.Stderr, "INFRASTRUCTURE: cannot read replay file:", err)
		return 2
	}
	if rf.Property != c.Prop {
		fmt.Fprintf(os.Stderr, "INFRASTRUCTURE: replay file is for %s, not %s\n", rf.Property, c.Prop)
		return 2
	}
	failed, detail, err := replayOnce(c, rf)
	if err != nil {
		fmt.Fprintln(os.Stderr, "INFRASTRUCTURE:", err)
		return 2
	}
	if failed {
		fmt.Printf("VIOLATION property=%s replay=%s\n", rf.Property, path)
		fmt.Printf("  %s\n", detail)
		return 1
	}
	fmt.Printf("replay of %s did not reproduce on the current tree: %s\n", path, detail)
	return 0
}

func replayOnce(c *Ctx, rf *ReplayFile) (bool, string, error) {
	in := rf.Input()
	switch rf.Kind {
	case "lib-c13":
		a, err := DoFresh(c.sc.Worker, &Req{Op: "gen", DSL: in, History: rf.History, Sched: *rf.RefSched, WantBytes: true}, 1)
		if err != nil {
			return false, "", err
		}
		b, err := DoFresh(c.sc.Worker, &Req{Op: "gen", DSL: in, History: rf.History, Sched: *rf.Sched, WantBytes: true}, 1)
		if err != nil {
			return false, "", err
		}
		for _, t := range diffTargets(a, b) {
			if t == rf.Target {
				if t == "*" {
					return true, fmt.Sprintf("verdict differs: %q vs %q", clip(validity(a), 120), clip(validity(b), 120)), nil
				}
				file, line, l0, l1, diffs := firstFileDiff(stepByTarget(a, t), stepByTarget(b, t))
				if kf := c.known.Match("C13", "C13|lib|"+t, diffs); kf != nil {
					return false, "difference is the listed known finding " + kf.ID, nil
				}
				return true, fmt.Sprintf("target %s: %s line %d: %q (reference schedule) vs %q (recorded schedule)", t, file, line, clip(l0, 120), clip(l1, 120)), nil
			}
		}
		return false, "both schedules give identical files for target " + rf.Target, nil
	case "lib-session":
		ok, cold, warm := c.sessionDiffers(rf.Session, rf.Target)
		if !ok {
			return false, "the last step of the session produces the cold-process output for target " + rf.Target, nil
		}
		file, line, l0, l1, _ := firstFileDiff(stepByTarget(cold, rf.Target), stepByTarget(warm, rf.Target))
		return true, fmt.Sprintf("target %s: %s line %d: %q in a cold process vs %q after the earlier step of the session", rf.Target, file, line, clip(l0, 100), clip(l1, 100)), nil
	case "lib-c13-unseamed":
		sigs := map[string]bool{}
		for k := 0; k < 15; k++ {
			r, err := DoFresh(c.sc.Worker, &Req{Op: "gen", DSL: in, History: rf.History, Sched: *rf.Sched}, []int{1, 4, 16, 2, 3}[k%5])
			if err != nil {
				return false, "", err
			}
			s := validity(r)
			for i := range r.Steps {
				s += "#" + stepSig(&r.Steps[i])
			}
			sigs[s] = true
		}
		return len(sigs) > 1, fmt.Sprintf("%d distinct outputs in 15 fresh processes (GOMAXPROCS 1/4/16/2/3) under the identical schedule", len(sigs)), nil
	case "cli-c13", "cli-c14":
		oa, err := c.sc.RunCLI(rf.CLIRef)
		if err != nil {
			return false, "", err
		}
		ob, err := c.sc.RunCLI(rf.CLI)
		if err != nil {
			return false, "", err
		}
		if rf.Target == "*" {
			return oa.Exit != ob.Exit || (rf.Kind == "cli-c14" && ob.Exit != 0), fmt.Sprintf("exit %d vs %d", oa.Exit, ob.Exit), nil
		}
		sa, sb := oa.subtree(targetDir[rf.Target]), ob.subtree(targetDir[rf.Target])
		var diffs []string
		names := map[string]bool{}
		for n := range sa {
			names[n] = true
		}
		for n := range sb {
			names[n] = true
		}
		for _, n := range sortedKeys(names) {
			ea, oka := sa[n]
			eb, okb := sb[n]
			if oka != okb {
				diffs = append(diffs, "file set differs: "+n)
			} else if ea.Sha != eb.Sha {
				diffs = append(diffs, allDiffLines(ea.Data, eb.Data)...)
			}
		}
		if len(diffs) == 0 {
			return false, "identical trees for target " + rf.Target, nil
		}
		if rf.Kind == "cli-c13" {
			if kf := c.known.Match("C13", "C13|cli|"+rf.Target, diffs); kf != nil {
				return false, "difference is the listed known finding " + kf.ID, nil
			}
		}
		return true, fmt.Sprintf("target %s: %v", rf.Target, clipList(diffs, 2)), nil
	case "cli-c14-xflag":
		layout, xf := fmt.Sprint(rf.Expect["layout"]), fmt.Sprint(rf.Expect["flag"])
		plain := []DiskEntry{{Path: "in.dsl", Kind: "file", Data: in}}
		long := false
		for _, a := range rf.CLI.Argv {
			if a == "--file" {
				long = true
			}
		}
		sub := len(rf.CLI.Argv) > 0 && rf.CLI.Argv[0] == "compile"
		abs := strings.Contains(strings.Join(rf.CLI.Argv, " "), "{SB}")
		aloneX := map[string]*CLIOutcome{}
		for _, u := range AllTargets {
			ou, err := c.sc.RunCLI(&CLIWorld{Argv: append(compileArgv([]string{u}, long, sub, abs), xf), Disk0: plain, Sched: s0()})
			if err != nil {
				return false, "", err
			}
			aloneX[u] = ou
		}
		ob, err := c.sc.RunCLI(rf.CLI)
		if err != nil {
			return false, "", err
		}
		if d := layoutDiff(aloneX, ob, layoutDirs(layout, AllTargets), AllTargets, rf.Target); len(d) > 0 {
			return true, fmt.Sprintf("with %s target %s differs alone vs together in layout %s: %v", xf, rf.Target, layout, clipList(d, 2)), nil
		}
		return false, "with " + xf + " every file of target " + rf.Target + " is present and identical", nil
	case "cli-c14-nofile":
		plain := []DiskEntry{{Path: "in.dsl", Kind: "file", Data: in}}
		alone := map[string]*CLIOutcome{}
		for _, u := range AllTargets {
			ou, err := c.sc.RunCLI(&CLIWorld{Argv: compileArgv([]string{u}, false, true, false), Disk0: plain, Sched: s0()})
			if err != nil {
				return false, "", err
			}
			alone[u] = ou
		}
		for k := 0; k < 3; k++ {
			ob, err := c.sc.RunCLI(rf.CLI)
			if err != nil {
				return false, "", err
			}
			if d := layoutDiff(alone, ob, layoutDirs("", AllTargets), AllTargets, rf.Target); len(d) > 0 {
				return true, fmt.Sprintf("under the descriptor limit target %s is incomplete or different when all targets are requested: %v", rf.Target, clipList(d, 2)), nil
			}
		}
		return false, "all targets are written completely under the descriptor limit", nil
	case "cli-c14-obstacle":
		layout := fmt.Sprint(rf.Expect["layout"])
		long := false
		for _, a := range rf.CLI.Argv {
			if a == "--file" {
				long = true
			}
		}
		sub := len(rf.CLI.Argv) > 0 && rf.CLI.Argv[0] == "compile"
		abs := strings.Contains(strings.Join(rf.CLI.Argv, " "), "{SB}")
		alone := map[string]*CLIOutcome{}
		plain := []DiskEntry{{Path: "in.dsl", Kind: "file", Data: in}}
		for _, u := range rf.History {
			ou, err := c.sc.RunCLI(&CLIWorld{Argv: compileArgv([]string{u}, long, sub, abs), Disk0: plain, Sched: s0()})
			if err != nil {
				return false, "", err
			}
			alone[u] = ou
		}
		ob, err := c.sc.RunCLI(rf.CLI)
		if err != nil {
			return false, "", err
		}
		d := layoutDiff(alone, ob, layoutDirs(layout, AllTargets), rf.History, rf.Target)
		if len(d) > 0 {
			return true, fmt.Sprintf("target %s lost what it had written when %v failed later: %v", rf.Target, rf.Expect["failing_target"], clipList(d, 2)), nil
		}
		return false, "the files of target " + rf.Target + " survive the later target's failure", nil
	case "cli-c14-layout":
		layout := fmt.Sprint(rf.Expect["layout"])
		alone := map[string]*CLIOutcome{}
		long := false
		for _, a := range rf.CLI.Argv {
			if a == "--file" {
				long = true
			}
		}
		sub := len(rf.CLI.Argv) > 0 && rf.CLI.Argv[0] == "compile"
		abs := strings.Contains(strings.Join(rf.CLI.Argv, " "), "{SB}")
		for _, u := range rf.History {
			ou, err := c.sc.RunCLI(&CLIWorld{Argv: compileArgv([]string{u}, long, sub, abs), Disk0: rf.CLI.Disk0, Sched: s0()})
			if err != nil {
				return false, "", err
			}
			alone[u] = ou
		}
		ob, err := c.sc.RunCLI(rf.CLI)
		if err != nil {
			return false, "", err
		}
		if rf.Target == "*" {
			return ob.Exit != 0, fmt.Sprintf("exit %d", ob.Exit), nil
		}
		d := layoutDiff(alone, ob, layoutDirs(layout, rf.History), rf.History, rf.Target)
		if len(d) > 0 {
			return true, fmt.Sprintf("target %s in layout %s: %v", rf.Target, layout, clipList(d, 2)), nil
		}
		return false, "every file of target " + rf.Target + " is present and identical in layout " + layout, nil
	case "real-c13":
		var first *CLIOutcome
		for k := 0; k < 8; k++ {
			w := *rf.CLI
			w.Real = true
			o, err := c.sc.RunCLI(&w)
			if err != nil {
				return false, "", err
			}
			if first == nil {
				first = o
				continue
			}
			if ts, diffs := cliDiff(first, o); len(ts) > 0 {
				return true, fmt.Sprintf("two runs of the unrewritten binary differ on %v: %v", ts, clipList(diffs[ts[0]], 2)), nil
			}
		}
		return false, "8 runs of the unrewritten binary agree", nil
	case "lib-c14":
		ref, err := DoFresh(c.sc.Worker, &Req{Op: "gen", DSL: in, History: []string{rf.History[len(rf.History)-1]}, Sched: *rf.RefSched, WantBytes: true}, 1)
		if err != nil {
			return false, "", err
		}
		got, err := DoFresh(c.sc.Worker, &Req{Op: "gen", DSL: in, History: rf.History, Sched: *rf.Sched, WantBytes: true}, 1)
		if err != nil {
			return false, "", err
		}
		if validity(ref) != "OK" || validity(got) != "OK" || len(got.Steps) != len(rf.History) {
			return false, "the program no longer compiles: " + validity(got), nil
		}
		last := &got.Steps[len(got.Steps)-1]
		if fmt.Sprint(rf.Expect["invariant"]) == "I1" {
			if last.FP != got.FP0 {
				prev := got.FP0Text
				if len(got.Steps) > 1 {
					prev = got.Steps[len(got.Steps)-2].FPText
				}
				a, b := diffSegment(prev, last.FPText)
				return true, fmt.Sprintf("I1: generating %s altered the model: %q -> %q", last.Target, clip(a, 100), clip(b, 100)), nil
			}
			return false, "I1 holds: model fingerprint unchanged after history " + strings.Join(rf.History, ">"), nil
		}
		rs := stepByTarget(ref, last.Target)
		if rs != nil && stepSig(rs) != stepSig(last) {
			file, line, l0, l1, _ := firstFileDiff(rs, last)
			return true, fmt.Sprintf("I2: %s line %d: %q alone vs %q after %v", file, line, clip(l0, 100), clip(l1, 100), rf.History[:len(rf.History)-1]), nil
		}
		return false, "I2 holds: files of " + last.Target + " equal the alone-on-fresh-parse reference", nil
	case "cli-c16-format":
		ref, err := DoFresh(c.sc.Worker, &Req{Op: "format", DSL: in, Sched: s0()}, 1)
		if err != nil {
			return false, "", err
		}
		if ref.TimedOut || ref.Crashed != "" || ref.ParsePanic != "" {
			return false, "the reference formatter panics on this input", nil
		}
		o, err := c.sc.RunCLI(rf.CLI)
		if err != nil {
			return false, "", err
		}
		var v *c16Viol
		if fmt.Sprint(rf.Expect["entry"]) == "format-d" {
			v = checkFormatD(ref, o)
		} else {
			last := rf.CLI.Argv[len(rf.CLI.Argv)-1]
			last = strings.TrimPrefix(strings.TrimPrefix(last, "--file="), "-f=")
			sh := fileShape{rel: last}
			for _, d := range rf.CLI.Disk0 {
				if d.Kind == "file" && string(d.Data) == string(in) && d.Path != "sibling.dsl" {
					sh.real = d.Path
				}
			}
			v = checkFormatF(ref, o, sh)
			if (rf.CLI.Sched.DenyCreate || len(filepath.Base(sh.real)) >= 255) && ref.FormatOK && gaveUp(o, sh, in) {
				v = nil // a faulted run that gave up is not judged
			}
		}
		if v != nil {
			return true, v.msg, nil
		}
		return false, "entry point output equals the library result", nil
	case "so-c16-concurrent":
		for t := 0; t < 20; t++ {
			res, err := runHost(c, rf.Host, true)
			if err != nil {
				return false, "", err
			}
			if res == nil {
				continue
			}
			for k, call := range rf.Host.Calls {
				ref, err := DoFresh(c.sc.Worker, &Req{Op: "format", DSL: call.Input, Sched: s0()}, 1)
				if err != nil || ref.TimedOut || ref.Crashed != "" || ref.ParsePanic != "" {
					continue
				}
				if v := checkHostCall(ref, &res[k]); v != nil {
					return true, fmt.Sprintf("repetition %d: %s", t+1, v.msg), nil
				}
			}
		}
		return false, "20 free-running repetitions all returned the library result", nil
	case "host-c16-preempt":
		class, _ := rf.Expect["class"].(string)
		k, v, _ := preemptFails(c, rf.Host, rf.Sched, class)
		if k >= 0 {
			return true, fmt.Sprintf("call %d: %s", k+1, v.msg), nil
		}
		return false, "every call of the preemptive host world returned the library result", nil
	case "host-c16-preempt-crash":
		_, _, err := runHostWorld(c, rf.Host, rf.Sched)
		if e, ok := err.(*hostCrashErr); ok {
			return true, e.Error(), nil
		}
		if err != nil {
			return false, "", err
		}
		return false, "the host survived the world", nil
	case "host-c16-crash":
		_, err := runHost(c, rf.Host, false)
		if e, ok := err.(*hostCrashErr); ok {
			return true, e.Error(), nil
		}
		if err != nil {
			return false, "", err
		}
		return false, "the host survived the history", nil
	case "host-c16-late":
		k, v := c.lateFails(rf.Host)
		if v != nil {
			return true, fmt.Sprintf("call %d: %s", k, v.msg), nil
		}
		return false, "every returned string read the same before it was freed", nil
	case "host-c16", "so-c16":
		res, err := runHost(c, rf.Host, rf.Kind == "so-c16")
		if err != nil {
			return false, "", err
		}
		if res == nil {
			return false, "host timed out", nil
		}
		last := rf.Host.Calls[len(rf.Host.Calls)-1]
		ref, err := DoFresh(c.sc.Worker, &Req{Op: "format", DSL: last.Input, Sched: s0()}, 1)
		if err != nil {
			return false, "", err
		}
		if ref.TimedOut || ref.Crashed != "" || ref.ParsePanic != "" {
			return false, "the reference formatter panics on this input", nil
		}
		if v := checkHostCall(ref, &res[len(res)-1]); v != nil {
			return true, v.msg, nil
		}
		if v := c.checkErrorTextCold(ref, last, &res[len(res)-1], rf.Kind == "so-c16"); v != nil {
			return true, v.msg, nil
		}
		return false, "returned string equals the library result", nil
	case "cli-c16-compile":
		ref, err := DoFresh(c.sc.Worker, &Req{Op: "gen", DSL: in, History: rf.History, Sched: s0(), WantBytes: true}, 1)
		if err != nil {
			return false, "", err
		}
		if validity(ref) != "OK" {
			return false, "the program no longer compiles: " + validity(ref), nil
		}
		cc := &compileCase{targets: rf.History, dirs: map[string]string{}}
		if d, ok := rf.Expect["dirs"].(map[string]any); ok {
			for k, v := range d {
				cc.dirs[k] = fmt.Sprint(v)
			}
		}
		o, err := c.sc.RunCLI(rf.CLI)
		if err != nil {
			return false, "", err
		}
		if fmt.Sprint(rf.Expect["class"]) == "spelling" {
			w2 := *rf.CLI
			if len(w2.Argv) > 0 && w2.Argv[0] == "compile" {
				w2.Argv = w2.Argv[1:]
			} else {
				w2.Argv = append([]string{"compile"}, w2.Argv...)
			}
			o2, err := c.sc.RunCLI(&w2)
			if err != nil {
				return false, "", err
			}
			if treeSig(o, "") != treeSig(o2, "") {
				return true, "the two spellings of compile leave different trees", nil
			}
			return false, "both spellings leave identical trees", nil
		}
		if v := checkCompile(ref, o, cc); v != nil {
			return true, v.msg, nil
		}
		return false, "compile wrote exactly the generators' file set", nil
	}
	return false, "", infraf("unknown replay kind %q", rf.Kind)
}

package main

import (
	"fmt"
	"strings"
)

// Warm-process sessions. A library-level world normally starts from a cold
// process state; a *session* is a sequence of worlds executed one after the
// other in one fresh process, so that package-level state (in the repository
// or in a library it configures) survives from one compilation to the next.
// The oracle is the cold outcome: the last step of the session must produce
// what the same (program, history) produces alone in a fresh process.
//
// The search is triggered by candidates that are seen inside a long-lived
// worker but do not reproduce in a fresh process.

type SessionStep struct {
	DSL     string   `json:"dsl"`
	History []string `json:"history"`
}

// sessionOutcome runs steps in one fresh process and returns the last response.
func (c *Ctx) sessionOutcome(steps []SessionStep) *Resp {
	var reqs []*Req
	for _, s := range steps {
		reqs = append(reqs, &Req{Op: "gen", DSL: []byte(s.DSL), History: s.History, Sched: s0(), WantBytes: true})
	}
	rs, err := DoSession(c.sc.Worker, reqs, 1)
	if err != nil || len(rs) != len(steps) {
		return nil
	}
	last := rs[len(rs)-1]
	if last.TimedOut || last.Crashed != "" {
		return nil
	}
	return last
}

// sessionDiffers: does target's outcome in the last step differ from the cold outcome?
func (c *Ctx) sessionDiffers(steps []SessionStep, target string) (bool, *Resp, *Resp) {
	lastStep := steps[len(steps)-1]
	cold := c.sessionOutcome([]SessionStep{lastStep})
	if cold == nil || validity(cold) != "OK" {
		return false, nil, nil
	}
	warm := c.sessionOutcome(steps)
	if warm == nil {
		return false, nil, nil
	}
	if validity(warm) != validity(cold) {
		return target == "*", cold, warm
	}
	a, b := stepByTarget(cold, target), stepByTarget(warm, target)
	if a == nil || b == nil {
		return false, cold, warm
	}
	return stepSig(a) != stepSig(b), cold, warm
}

// warmSearch tries to explain an unreproducible candidate by process state
// left behind by an earlier compilation. stream/caseIdx identify the programs
// that ran before it in this run (regenerated from the seed).
func (c *Ctx) warmSearch(stream string, caseIdx, ncases int, prog *Prog, hist []string, target string) bool {
	if target == "*" {
		return false
	}
	c.mu.Lock()
	key := "warm:" + c.Prop + "|" + target
	if c.sigSeen[key] {
		c.mu.Unlock()
		return true
	}
	c.mu.Unlock()
	pstep := SessionStep{DSL: prog.Render(), History: hist}
	var q *Prog
	var qhist []string
	tried := 0
	for back := 1; back <= 40 && q == nil; back++ {
		j := ((caseIdx-back)%ncases + ncases) % ncases
		if j == caseIdx {
			continue
		}
		cand := GenProg(SubSeed(c.Seed, stream, j))
		tried++
		if ok, _, _ := c.sessionDiffers([]SessionStep{{cand.Render(), AllTargets}, pstep}, target); ok {
			q, qhist = cand, AllTargets
		}
	}
	if q == nil {
		c.logf("warm-session search (%d predecessor programs tried) found no earlier compilation that changes the outcome of case %d / %s", tried, caseIdx, target)
		return false
	}
	c.mu.Lock()
	if c.sigSeen[key] {
		c.mu.Unlock()
		return true
	}
	c.sigSeen[key] = true
	c.mu.Unlock()
	// minimise: what must the earlier step do? nothing but parsing / one generator?
	differs := func(qp *Prog, qh []string, pp *Prog, ph []string) bool {
		ok, _, _ := c.sessionDiffers([]SessionStep{{qp.Render(), qh}, {pp.Render(), ph}}, target)
		return ok
	}
	if differs(q, []string{}, prog, hist) {
		qhist = []string{}
	} else {
		for _, t := range AllTargets {
			if differs(q, []string{t}, prog, hist) {
				qhist = []string{t}
				break
			}
		}
	}
	ph := hist
	if differs(q, qhist, prog, []string{target}) {
		ph = []string{target}
	}
	sq, u1 := ShrinkProg(q, func(x *Prog) bool { return differs(x, qhist, prog, ph) }, 120)
	sp, u2 := ShrinkProg(prog, func(x *Prog) bool { return differs(sq, qhist, x, ph) }, 120)
	steps := []SessionStep{{sq.Render(), qhist}, {sp.Render(), ph}}
	ok, cold, warm := c.sessionDiffers(steps, target)
	if !ok {
		sq, sp = q, prog
		steps = []SessionStep{{q.Render(), qhist}, {prog.Render(), ph}}
		ok, cold, warm = c.sessionDiffers(steps, target)
		if !ok {
			return false
		}
	}
	file, line, l0, l1, diffs := firstFileDiff(stepByTarget(cold, target), stepByTarget(warm, target))
	what := "parsing"
	if len(qhist) > 0 {
		what = "generating " + strings.Join(qhist, ",") + " for"
	}
	summary := fmt.Sprintf("target %s: output depends on what the same process compiled before: after %s another program, %s line %d is %q instead of %q (cold process)", target, what, file, line, clip(l1, 100), clip(l0, 100))
	rf := &ReplayFile{Property: c.Prop, Kind: "lib-session", RunSeed: c.Seed, Case: caseIdx, Target: target, Session: steps,
		Expect:    map[string]any{"file": file, "line": line, "cold": l0, "warm": l1},
		Original:  map[string]any{"earlier_program_packets": len(q.Pkts), "program_packets": len(prog.Pkts), "earlier_history": AllTargets, "history": hist},
		Minimised: map[string]any{"earlier_program_packets": len(sq.Pkts), "program_packets": len(sp.Pkts), "earlier_history": qhist, "history": ph, "shrink_evaluations": u1 + u2}}
	c.report(c.Prop+"|lib|warm|"+target, summary, diffs, rf)
	return true
}

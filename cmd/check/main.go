// Command check is the deterministic-simulation driver for fin-protoc
// (DESIGN.md). Usage:
//
//	check <C13|C14|C16> [--tier quick|thorough] [--replay FILE]
//	check selftest-determinism | selftest-sensitivity | gen-sample
//
// Exit status: 0 = property held on everything explored (known findings are
// printed as KNOWN-FINDING lines), 1 = at least one VIOLATION line was
// printed, 2 = infrastructure trouble (build failure, unseamed nondeterminism,
// watchdog) — never reported as a violation.
package main

import (
	"fmt"
	"os"
	"runtime"
	"sort"
	"strconv"
	"strings"
	"time"
)

func envInt(name string, def int) int {
	if v := os.Getenv(name); v != "" {
		if n, err := strconv.Atoi(v); err == nil {
			return n
		}
	}
	return def
}

func usage() {
	fmt.Fprintln(os.Stderr, "usage: check <C13|C14|C16|selftest-determinism|selftest-sensitivity|gen-sample> [--tier quick|thorough] [--replay FILE]")
	os.Exit(2)
}

func main() {
	if len(os.Args) < 2 {
		usage()
	}
	what := os.Args[1]
	tier := os.Getenv("VERIF_TIER")
	replay := ""
	for i := 2; i < len(os.Args); i++ {
		switch os.Args[i] {
		case "--tier":
			i++
			if i < len(os.Args) {
				tier = os.Args[i]
			}
		case "--replay":
			i++
			if i < len(os.Args) {
				replay = os.Args[i]
			}
		default:
			usage()
		}
	}
	if tier == "" {
		tier = "quick"
	}
	if tier != "quick" && tier != "thorough" {
		usage()
	}
	seed := uint64(1)
	if v := os.Getenv("VERIF_SEED"); v != "" {
		if n, err := strconv.ParseInt(v, 10, 64); err == nil {
			seed = uint64(n)
		} else if u, err := strconv.ParseUint(v, 10, 64); err == nil {
			seed = u
		}
	}
	fmt.Fprintf(os.Stderr, "VERIF_SEED=%d tier=%s check=%s\n", seed, tier, what)
	code := 0
	switch what {
	case "C13", "C14", "C16":
		code = runCheck(what, tier, seed, replay)
	case "selftest-determinism":
		code = selftestDeterminism(seed)
	case "selftest-sensitivity":
		code = selftestSensitivity(seed)
	case "warm":
		sc, err := BuildScratch(true, func(f string, a ...any) { fmt.Fprintf(os.Stderr, f+"\n", a...) })
		sc.Cleanup()
		if err != nil {
			fmt.Fprintln(os.Stderr, "INFRASTRUCTURE:", err)
			code = 2
		}
	case "probe-gen":
		code = probeGen(seed)
	case "gen-sample":
		n := envInt("VERIF_N", 3)
		for i := 0; i < n; i++ {
			fmt.Println(GenProg(SubSeed(seed, "sample", i)).Render())
			fmt.Println("// ----------------------------------------")
		}
	case "gen-format-sample":
		// debugging aid: the formatter inputs of the host histories, one JSON string per line
		n := envInt("VERIF_N", 20)
		for i := 0; i < n; i++ {
			fmt.Println(string(mustJSON(string(FormatInputLayout(SubSeed(seed, "in", i), 0)))))
		}
	default:
		usage()
	}
	os.Exit(code)
}

// probeGen reports how the workload generator fares against the compiler
// (tuning aid: rejected programs and generator panics should be rare).
func probeGen(seed uint64) int {
	sc, err := BuildScratch(false, nil)
	defer sc.Cleanup()
	if err != nil {
		fmt.Fprintln(os.Stderr, "INFRASTRUCTURE:", err)
		return 2
	}
	pool := NewPool(sc.Worker, 0, 1)
	defer pool.Close()
	n := envInt("VERIF_N", 2000)
	counts := map[string]int{}
	examples := map[string]string{}
	var mu = make(chan struct{}, 1)
	t0 := time.Now()
	_ = ParallelFor(n, 16, func(i int) error {
		p := GenProg(SubSeed(seed, "probe", i))
		text := p.Render()
		r, err := pool.Do(&Req{Op: "gen", DSL: []byte(text), History: AllTargets, Sched: s0()})
		if err != nil {
			return err
		}
		mu <- struct{}{}
		defer func() { <-mu }()
		v := validity(r)
		key := v
		if len(key) > 90 {
			key = key[:90]
		}
		counts[key]++
		if _, ok := examples[key]; !ok && v != "OK" {
			examples[key] = text
		}
		for _, st := range r.Steps {
			if st.Panic != "" {
				k := "PANIC " + st.Target + ": " + st.Panic
				counts[k]++
				if _, ok := examples[k]; !ok {
					examples[k] = text
				}
			}
		}
		return nil
	})
	fmt.Printf("%d programs in %.1fs\n", n, time.Since(t0).Seconds())
	var keys []string
	for k := range counts {
		keys = append(keys, k)
	}
	sort.Strings(keys)
	for _, k := range keys {
		fmt.Printf("%6d  %s\n", counts[k], k)
	}
	if os.Getenv("VERIF_EXAMPLES") != "" {
		for _, k := range keys {
			if ex, ok := examples[k]; ok {
				fmt.Printf("\n===== %s\n%s\n", k, ex)
			}
		}
	}
	return 0
}

func runCheck(prop, tier string, seed uint64, replay string) int {
	known, err := LoadKnown()
	if err != nil {
		fmt.Fprintln(os.Stderr, "cannot load known findings:", err)
		return 2
	}
	c := &Ctx{Prop: prop, Tier: tier, Seed: seed, Start: time.Now(), Workers: runtime.NumCPU(), knownHits: map[string]int{}, sigSeen: map[string]bool{}, unseamed: map[string]bool{}, known: known, ev: NewEvidence()}
	if w := envInt("VERIF_WORKERS", 0); w > 0 {
		c.Workers = w
	}
	needReal := tier == "thorough" || os.Getenv("VERIF_REAL") != ""
	if replay != "" {
		if rf, err := LoadReplay(replay); err == nil && (strings.HasPrefix(rf.Kind, "real-") || strings.HasPrefix(rf.Kind, "so-c16")) {
			needReal = true
		}
	}
	sc, err := BuildScratch(needReal, c.logf)
	defer sc.Cleanup()
	if err != nil {
		fmt.Fprintln(os.Stderr, "INFRASTRUCTURE:", err)
		return 2
	}
	c.sc = sc
	for _, sm := range sc.Report.Seams {
		if sm.Kind == "go" || sm.Kind == "timer" || sm.Kind == "send" {
			bubbleOn = true
		}
	}
	if bubbleOn {
		c.logf("the tree starts goroutines or timers: worlds run inside a synctest bubble (fake clock, goroutine scheduling seam)")
	}
	if len(sc.Report.Unseamed) > 0 {
		// Sources of nondeterminism the simulator does not own. They do not make
		// the checks unsound (an alarm is only ever raised on an observed,
		// re-confirmed difference), but the scheduler cannot steer them: the
		// run says so, records them in the evidence file, and leans harder on
		// the uncontrolled process dimension (the identical schedule in more
		// fresh processes under different GOMAXPROCS).
		fmt.Fprintln(os.Stderr, "WARNING: the tree contains nondeterminism sources without a seam (covered only by repeated executions in separate processes):")
		for _, u := range sc.Report.Unseamed {
			fmt.Fprintln(os.Stderr, "  ", u)
		}
		uncontrolled = len(sc.Report.Unseamed)
		c.ev.Extra["uncontrolled_sources"] = sc.Report.Unseamed
	}
	if replay != "" {
		return runReplay(c, replay)
	}
	var runErr error
	var rule string
	var assumptions []string
	switch prop {
	case "C13":
		runErr = runC13(c)
		rule, assumptions = c13Rule, c13Assumptions
	case "C14":
		runErr = runC14(c)
		rule, assumptions = c14Rule, c14Assumptions
	case "C16":
		runErr = runC16(c)
		rule, assumptions = c16Rule, c16Assumptions
	}
	if runErr != nil {
		fmt.Fprintln(os.Stderr, "INFRASTRUCTURE:", runErr)
		return 2
	}
	if len(c.unseamed) > 0 {
		var us []string
		for u := range c.unseamed {
			us = append(us, u)
		}
		sort.Strings(us)
		fmt.Fprintln(os.Stderr, "WARNING: nondeterminism the scheduler could not canonicalise was met at run time:")
		for _, u := range us {
			fmt.Fprintln(os.Stderr, "  ", u)
		}
		c.ev.Extra["uncontrolled_at_run_time"] = us
	}
	c.writeEventLog()
	if os.Getenv("VERIF_NO_EVIDENCE") != "" {
		if len(c.violations) > 0 {
			return 1
		}
		return 0
	}
	if err := c.WriteEvidence(rule, assumptions, components(tier)); err != nil {
		fmt.Fprintln(os.Stderr, "INFRASTRUCTURE: cannot write evidence:", err)
		return 2
	}
	c.logf("%d worlds, %d distinct perturbing schedules/histories, %d candidates, %d violations, %d known-finding hits", c.ev.Evals, len(c.ev.Distinct), c.candidates, len(c.violations), c.knownTotal())
	if len(c.violations) > 0 {
		return 1
	}
	return 0
}

func components(tier string) map[string]string {
	m := map[string]string{
		"ANTLR runtime, generated lexer/parser, visitor, model, formatter, six generators, WriteCodeToFile, cobra, cmd wrappers, FormatPacketDslExport incl. C.GoString/C.CString": "real code (rewritten only at the seams listed under seams)",
		"map iteration order, time.Now, os.Exit, os.Getpid, math/rand top-level functions":                                                                                        "simulator (internal/simrt)",
		"file system": "real kernel FS inside a private sandbox directory, behind the logging/confining/fault-injecting shim",
		"intra-call thread preemption inside the ANTLR runtime":                                                                                                                   "not simulated (host calls interleave at call granularity)",
	}
	if tier == "thorough" {
		m["C host of the library"] = "quick: Go bridge in the same binary; thorough: real libpacketdsl.so loaded by a real C program"
		m["unrewritten fin-protoc binary"] = "thorough: run in fresh processes for simulator-fidelity validation"
	} else {
		m["C host of the library"] = "Go bridge in the same binary (thorough tier uses the real .so and a C host)"
	}
	return m
}

// Command simrewrite applies the seam rewrites to a scratch copy of fin-protoc
// (debugging front end; the checks call the rewrite package directly).
package main

import (
	"encoding/json"
	"flag"
	"fmt"
	"os"

	"verif/rewrite"
)

func main() {
	root := flag.String("root", "", "scratch module root (rewritten in place)")
	flag.Parse()
	if *root == "" {
		fmt.Fprintln(os.Stderr, "usage: simrewrite -root DIR")
		os.Exit(2)
	}
	rep, err := rewrite.Run(*root, os.Stderr)
	if err != nil {
		fmt.Fprintln(os.Stderr, err)
		os.Exit(2)
	}
	enc := json.NewEncoder(os.Stdout)
	enc.SetIndent("", " ")
	_ = enc.Encode(rep)
}

#!/bin/sh
# Confirms a candidate seeded change: applies cleanly, builds, passes the
# existing suite, its demonstration fails with it and passes without it.
# usage: confirm_mutant.sh <dir containing patch.diff and demo.sh>
set -u
M="$(cd "$1" && pwd)"
T="$(mktemp -d /tmp/verif-confirm-XXXXXX)"
trap 'rm -rf "$T"' EXIT
export GOFLAGS=-mod=mod GOPROXY=off GOSUMDB=off GOTOOLCHAIN=local GOWORK=off
mkdir -p "$T/bin"; ln -s /usr/local/bin/go1.26.8 "$T/bin/go"; export PATH="$T/bin:$PATH"
rsync -a --exclude .git --exclude MUTANT /repo/ "$T/clean/"
rsync -a --exclude .git --exclude MUTANT /repo/ "$T/mut/"
(cd "$T/mut" && git apply --whitespace=nowarn "$M/patch.diff") || { echo "RESULT apply=FAIL"; exit 1; }
(cd "$T/mut" && go build ./... ) >"$T/build.log" 2>&1 && b=ok || b=FAIL
(cd "$T/mut" && go test -vet=off -count=1 ./... ) >"$T/test.log" 2>&1 && t=ok || t=FAIL
(cd "$M" && bash ./demo.sh "$T/mut") >"$T/demo_mut.log" 2>&1; dm=$?
(cd "$M" && bash ./demo.sh "$T/clean") >"$T/demo_clean.log" 2>&1; dc=$?
echo "RESULT apply=ok build=$b tests=$t demo_with_change_exit=$dm demo_without_change_exit=$dc"
[ "$b" = ok ] && [ "$t" = ok ] && [ $dm -ne 0 ] && [ $dc -eq 0 ] && exit 0
tail -5 "$T/build.log" "$T/test.log" "$T/demo_mut.log" "$T/demo_clean.log"
exit 1

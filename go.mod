module verif

go 1.26

#!/bin/sh
# Runs checks against a scratch copy of /repo with one patch applied.
# usage: run_patch.sh <patch.diff> <C13|C14|C16>... ; env VERIF_TIER, VERIF_SEED honoured.
# Prints one line per check: "<patch> <check> exit=<n> <first VIOLATION summary>".
# /repo itself is never touched.
set -u
V="$(cd "$(dirname "$0")" && pwd)"
P="$(cd "$(dirname "$1")" && pwd)/$(basename "$1")"; shift
T="$(mktemp -d /tmp/verif-patched-XXXXXX)"
trap 'rm -rf "$T"' EXIT
rsync -a --exclude .git --exclude /bin --exclude '*.so' "${VERIF_REPO_SRC:-/repo}/" "$T/repo/"
if ! (cd "$T/repo" && git apply --whitespace=nowarn "$P") >"$T/apply.log" 2>&1; then
  if ! (cd "$T/repo" && patch -p1 -s < "$P") >>"$T/apply.log" 2>&1; then
    echo "$P APPLY-FAILED"; cat "$T/apply.log"; exit 3
  fi
fi
rc=0
for C in "$@"; do
  out="$T/out.$C"
  VERIF_REPO="$T/repo" VERIF_NO_EVIDENCE=1 "$V/check" "$C" --tier "${VERIF_TIER:-quick}" >"$out" 2>"$out.err"
  e=$?
  v="$(grep -a -A1 '^VIOLATION' "$out" | sed -n 2p | cut -c1-260)"
  [ $e -eq 2 ] && v="$(grep -A3 INFRASTRUCTURE "$out.err" | head -4 | tr '\n' ' ' | cut -c1-300)"
  n="$(grep -a -c '^VIOLATION' "$out")"
  echo "$(basename "$(dirname "$P")")/$(basename "$P") $C exit=$e violations=$n $v"
  if [ -n "${VERIF_SAVE_OUT:-}" ]; then mkdir -p "$VERIF_SAVE_OUT"; cp "$out" "$VERIF_SAVE_OUT/$(basename "$(dirname "$P")").$C.out"; cp "$out.err" "$VERIF_SAVE_OUT/$(basename "$(dirname "$P")").$C.err"; fi
  [ $e -ne 0 ] && rc=$e
done
exit $rc

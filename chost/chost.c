/* C host for the real libpacketdsl.so (C16 thorough tier).
 * usage: chost <lib.so> <spec.bin> <out.bin>
 * spec.bin: "<threads> <ncalls>\n" then per call "<thread> <len>\n<bytes>\n"
 * out.bin:  per call "<len>\n<bytes>\n"
 * The calls are executed on real pthreads, one at a time, in the recorded
 * order (a baton decides who runs), exactly like the simulated host. */
#include <dlfcn.h>
#include <pthread.h>
#include <stdio.h>
#include <stdlib.h>
#include <string.h>

typedef char *(*format_fn)(char *);

struct call { int thread; long len; char *in; char *out; };

static struct call *calls;
static int ncalls, nthreads;
static int next_call = 0;
static pthread_mutex_t mu = PTHREAD_MUTEX_INITIALIZER;
static pthread_cond_t cv = PTHREAD_COND_INITIALIZER;
static format_fn fmt;

static int concurrent = 0;

/* free-running mode: every thread works through its own calls without a baton */
static void *free_worker(void *arg) {
    int me = (int)(long)arg;
    for (int i = 0; i < ncalls; i++) {
        if (calls[i].thread % nthreads != me) continue;
        char *r = fmt(calls[i].in);
        if (r) { calls[i].out = strdup(r); free(r); } else { calls[i].out = NULL; }
    }
    return NULL;
}

static void *worker(void *arg) {
    int me = (int)(long)arg;
    pthread_mutex_lock(&mu);
    for (;;) {
        while (next_call < ncalls && calls[next_call].thread % nthreads != me)
            pthread_cond_wait(&cv, &mu);
        if (next_call >= ncalls) break;
        struct call *c = &calls[next_call];
        pthread_mutex_unlock(&mu);
        char *r = fmt(c->in);
        pthread_mutex_lock(&mu);
        if (r) { c->out = strdup(r); free(r); } else { c->out = NULL; }
        next_call++;
        pthread_cond_broadcast(&cv);
    }
    pthread_cond_broadcast(&cv);
    pthread_mutex_unlock(&mu);
    return NULL;
}

int main(int argc, char **argv) {
    if (argc == 5 && strcmp(argv[4], "concurrent") == 0) { concurrent = 1; argc = 4; }
    if (argc != 4) { fprintf(stderr, "usage: chost lib spec out [concurrent]\n"); return 2; }
    void *h = dlopen(argv[1], RTLD_NOW);
    if (!h) { fprintf(stderr, "dlopen: %s\n", dlerror()); return 2; }
    fmt = (format_fn)dlsym(h, "FormatPacketDslExport");
    if (!fmt) { fprintf(stderr, "dlsym: %s\n", dlerror()); return 2; }
    FILE *f = fopen(argv[2], "rb");
    if (!f) { perror("spec"); return 2; }
    if (fscanf(f, "%d %d\n", &nthreads, &ncalls) != 2) { fprintf(stderr, "bad spec header\n"); return 2; }
    if (nthreads < 1) nthreads = 1;
    calls = calloc(ncalls > 0 ? ncalls : 1, sizeof *calls);
    for (int i = 0; i < ncalls; i++) {
        if (fscanf(f, "%d %ld", &calls[i].thread, &calls[i].len) != 2) { fprintf(stderr, "bad call header %d\n", i); return 2; }
        fgetc(f); /* the newline after the header */
        calls[i].in = malloc(calls[i].len + 1);
        if (calls[i].len > 0 && fread(calls[i].in, 1, calls[i].len, f) != (size_t)calls[i].len) { fprintf(stderr, "short read\n"); return 2; }
        calls[i].in[calls[i].len] = 0;
        fgetc(f);
    }
    fclose(f);
    pthread_t *th = calloc(nthreads, sizeof *th);
    for (int t = 0; t < nthreads; t++) pthread_create(&th[t], NULL, concurrent ? free_worker : worker, (void *)(long)t);
    for (int t = 0; t < nthreads; t++) pthread_join(th[t], NULL);
    FILE *o = fopen(argv[3], "wb");
    if (!o) { perror("out"); return 2; }
    for (int i = 0; i < ncalls; i++) {
        const char *r = calls[i].out ? calls[i].out : "";
        fprintf(o, "%zu\n", strlen(r));
        fwrite(r, 1, strlen(r), o);
        fputc('\n', o);
    }
    fclose(o);
    return 0;
}

#!/usr/bin/env python3
"""store_mutant.py <srcdir> <id> <property> <needs> <caught_by> <history>
Copies a confirmed seeded change into /verif/seeded/<id>/ and writes meta.json."""
import sys, os, shutil, json, subprocess
src, mid, prop, needs, caught, hist = sys.argv[1:7]
expected_exit = int(sys.argv[7]) if len(sys.argv) > 7 else 1
dst = os.path.join('/verif/seeded', mid)
if os.path.exists(dst): shutil.rmtree(dst)
shutil.copytree(src, dst)
conf = subprocess.run(['/verif/confirm_mutant.sh', dst], capture_output=True, text=True).stdout.strip().splitlines()[-1:]
meta = {
 "id": mid, "breaks_property": prop, "needs_to_manifest": needs,
 "confirmed": conf[0] if conf else "",
 "confirmation_cmd": "/verif/confirm_mutant.sh /verif/seeded/%s  (apply -> go build ./... -> go test ./... -> demo.sh must fail; clean tree -> demo.sh must pass)" % mid,
 "detection_cmd": "/verif/run_patch.sh /verif/seeded/%s/patch.diff %s" % (mid, prop),
 "caught_by": caught, "history": hist, "expected_quick_exit": expected_exit,
 "origin": "written by an independent sub-agent that saw only the property text and a scratch worktree",
}
json.dump(meta, open(os.path.join(dst, 'meta.json'), 'w'), indent=1)
print(json.dumps(meta, indent=1))

//go:build verif

package main

/*
#include <stdlib.h>
*/
import "C"

import (
	"encoding/json"
	"fmt"
	"os"
	"runtime"
	"unsafe"

	"github.com/xinchentechnote/fin-protoc/internal/simrt"
)

// main of the simulated CLI: the repo's own main (renamed verifOrigMain by
// the rewriter) runs between world start (simrt's init) and the flush of the
// world record. With VERIF_HOST set the process is instead a simulated editor
// host that calls the C export many times.
func main() {
	if p := os.Getenv("VERIF_HOST"); p != "" {
		runHost(p)
		return
	}
	if dl := simrt.RunWorld(verifOrigMain); dl != "" {
		fmt.Fprintln(os.Stderr, "verif:", dl)
		simrt.Exit(98)
	}
	simrt.Exit(0)
}

type hostCall struct {
	Thread int    `json:"thread"`
	Input  []byte `json:"input"`
}

type hostSpec struct {
	Threads int        `json:"threads"`
	Calls   []hostCall `json:"calls"` // in the order the scheduler chose
	Out     string     `json:"out"`
	// Preempt: every simulated host thread is a goroutine of one synctest
	// bubble; several of them are inside the exported function at the same
	// time and the world's scheduler decides, at every preemption point, who
	// continues (VERIF_WORLD carries the world configuration).
	Preempt bool `json:"preempt,omitempty"`
	// Host memory model. Hold > 0: the host keeps the last Hold returned
	// strings alive (an undo ring), reads each of them a second time just
	// before it frees it (when it falls out of the ring, or at the end of the
	// history) and reports both readings. ReuseIn: every host thread owns ONE
	// input buffer that it refills for each call and scribbles over after the
	// call has returned, so the same address carries different texts.
	Hold    int  `json:"hold,omitempty"`
	ReuseIn bool `json:"reuse_in,omitempty"`
}

type hostResult struct {
	Thread int    `json:"thread"`
	Output []byte `json:"output"`
	Panic  string `json:"panic,omitempty"`
	// second reading of the same returned buffer, taken just before the host
	// frees it (host memory model with Hold > 0)
	Late     []byte `json:"late,omitempty"`
	LateRead bool   `json:"late_read,omitempty"`
}

// hostMem is the memory a simulated host owns: per-thread input buffers and
// the ring of returned strings it has not freed yet. Calls are serialised by
// the baton, so no lock is needed.
type hostMem struct {
	hold    int
	reuseIn bool
	inBuf   map[int]*C.char
	inCap   map[int]int
	ring    []heldResult
	results *[]hostResult
}

type heldResult struct {
	idx int
	ptr *C.char
}

func newHostMem(spec *hostSpec, results *[]hostResult) *hostMem {
	return &hostMem{hold: spec.Hold, reuseIn: spec.ReuseIn, inBuf: map[int]*C.char{}, inCap: map[int]int{}, results: results}
}

func (m *hostMem) release(h heldResult) {
	r := &(*m.results)[h.idx]
	r.Late = []byte(C.GoString(h.ptr))
	r.LateRead = true
	C.free(unsafe.Pointer(h.ptr))
}

func (m *hostMem) drain() {
	for _, h := range m.ring {
		m.release(h)
	}
	m.ring = nil
}

// call makes call number idx on behalf of host thread t.
func (m *hostMem) call(t, idx int, in []byte) (out []byte, pan string) {
	if !m.reuseIn && m.hold == 0 {
		return callExport(in)
	}
	defer func() {
		if r := recover(); r != nil {
			pan = fmt.Sprint(r)
		}
	}()
	var cs *C.char
	if m.reuseIn {
		if m.inCap[t] < len(in)+1 {
			if m.inBuf[t] != nil {
				C.free(unsafe.Pointer(m.inBuf[t]))
			}
			m.inCap[t] = 2*len(in) + 64
			m.inBuf[t] = (*C.char)(C.malloc(C.size_t(m.inCap[t])))
		}
		cs = m.inBuf[t]
		buf := unsafe.Slice((*byte)(unsafe.Pointer(cs)), m.inCap[t])
		copy(buf, in)
		buf[len(in)] = 0
		defer func() {
			// the editor goes on typing into its buffer
			for i := 0; i < m.inCap[t]-1; i++ {
				buf[i] = '#'
			}
			buf[m.inCap[t]-1] = 0
		}()
	} else {
		cs = (*C.char)(C.CBytes(append(append([]byte{}, in...), 0)))
		defer C.free(unsafe.Pointer(cs))
	}
	ret := FormatPacketDslExport(cs)
	if ret == nil {
		return nil, "nil return"
	}
	out = []byte(C.GoString(ret))
	if m.hold == 0 {
		C.free(unsafe.Pointer(ret))
		return out, ""
	}
	m.ring = append(m.ring, heldResult{idx: idx, ptr: ret})
	if len(m.ring) > m.hold {
		old := m.ring[0]
		m.ring = m.ring[1:]
		defer m.release(old) // after this call's own result has been stored
	}
	return out, ""
}

func callExport(in []byte) (out []byte, pan string) {
	defer func() {
		if r := recover(); r != nil {
			pan = fmt.Sprint(r)
		}
	}()
	// exactly what a C host does: NUL-terminated buffer in, NUL-terminated
	// malloc'ed buffer out, freed by the caller
	cs := (*C.char)(C.CBytes(append(append([]byte{}, in...), 0)))
	defer C.free(unsafe.Pointer(cs))
	ret := FormatPacketDslExport(cs)
	if ret == nil {
		return nil, "nil return"
	}
	out = []byte(C.GoString(ret))
	C.free(unsafe.Pointer(ret))
	return out, ""
}

func runHost(specPath string) {
	data, err := os.ReadFile(specPath)
	if err != nil {
		fmt.Fprintln(os.Stderr, "verif host:", err)
		os.Exit(97)
	}
	var spec hostSpec
	if err := json.Unmarshal(data, &spec); err != nil {
		fmt.Fprintln(os.Stderr, "verif host:", err)
		os.Exit(97)
	}
	if spec.Threads < 1 {
		spec.Threads = 1
	}
	if spec.Preempt {
		runHostPreempt(&spec)
		return
	}
	// Simulated host threads are real OS threads (goroutines locked to their
	// thread); the baton decides who runs, one call at a time, so the
	// interleaving is exactly the recorded one.
	type job struct {
		idx  int
		in   []byte
		done chan hostResult
	}
	results := make([]hostResult, len(spec.Calls))
	mem := newHostMem(&spec, &results)
	chans := make([]chan job, spec.Threads)
	for t := range chans {
		chans[t] = make(chan job)
		go func(t int) {
			runtime.LockOSThread()
			for j := range chans[t] {
				out, pan := mem.call(t, j.idx, j.in)
				j.done <- hostResult{Thread: t, Output: out, Panic: pan}
			}
		}(t)
	}
	store := func(idx int, r hostResult) {
		// a late reading of this very call may already have been recorded
		r.Late, r.LateRead = results[idx].Late, results[idx].LateRead
		results[idx] = r
	}
	if spec.Threads == 1 {
		// a single-threaded host: every call comes from the same thread, back
		// to back, with no hand-over in between (per-thread / per-P caches such
		// as sync.Pool see the same caller again)
		for k, c := range spec.Calls {
			out, pan := mem.call(0, k, c.Input)
			store(k, hostResult{Thread: 0, Output: out, Panic: pan})
		}
		spec.Calls = nil
	}
	for k, c := range spec.Calls {
		j := job{idx: k, in: c.Input, done: make(chan hostResult, 1)}
		chans[c.Thread%spec.Threads] <- j
		store(k, <-j.done)
	}
	mem.drain()
	outData, _ := json.Marshal(results)
	if err := os.WriteFile(spec.Out, outData, 0o644); err != nil {
		fmt.Fprintln(os.Stderr, "verif host:", err)
		os.Exit(97)
	}
	os.Exit(0)
}

// runHostPreempt: the preemptive host world. Thread t makes its calls in the
// order they appear in spec.Calls; nothing else orders the threads.
func runHostPreempt(spec *hostSpec) {
	results := make([]hostResult, len(spec.Calls))
	dl := simrt.RunWorld(func() {
		done := make(chan int, spec.Threads)
		for t := 0; t < spec.Threads; t++ {
			id := simrt.Spawn("host-thread")
			go func(t int) {
				simrt.Park(id, "host-thread")
				for k, c := range spec.Calls {
					if c.Thread%spec.Threads != t {
						continue
					}
					simrt.Yield("host-call")
					out, pan := callExport(c.Input)
					results[k] = hostResult{Thread: t, Output: out, Panic: pan}
				}
				done <- t
			}(t)
		}
		for t := 0; t < spec.Threads; t++ {
			<-done
		}
	})
	if dl != "" {
		fmt.Fprintln(os.Stderr, "verif host:", dl)
		simrt.Exit(98)
	}
	outData, _ := json.Marshal(results)
	if err := os.WriteFile(spec.Out, outData, 0o644); err != nil {
		fmt.Fprintln(os.Stderr, "verif host:", err)
		os.Exit(97)
	}
	simrt.Exit(0)
}

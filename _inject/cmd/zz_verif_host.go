//go:build verif

package main

/*
#include <stdlib.h>
*/
import "C"

import (
	"encoding/json"
	"fmt"
	"os"
	"runtime"
	"unsafe"

	"github.com/xinchentechnote/fin-protoc/internal/simrt"
)

// main of the simulated CLI: the repo's own main (renamed verifOrigMain by
// the rewriter) runs between world start (simrt's init) and the flush of the
// world record. With VERIF_HOST set the process is instead a simulated editor
// host that calls the C export many times.
func main() {
	if p := os.Getenv("VERIF_HOST"); p != "" {
		runHost(p)
		return
	}
	if dl := simrt.RunWorld(verifOrigMain); dl != "" {
		fmt.Fprintln(os.Stderr, "verif:", dl)
		simrt.Exit(98)
	}
	simrt.Exit(0)
}

type hostCall struct {
	Thread int    `json:"thread"`
	Input  []byte `json:"input"`
}

type hostSpec struct {
	Threads int        `json:"threads"`
	Calls   []hostCall `json:"calls"` // in the order the scheduler chose
	Out     string     `json:"out"`
	// Preempt: every simulated host thread is a goroutine of one synctest
	// bubble; several of them are inside the exported function at the same
	// time and the world's scheduler decides, at every preemption point, who
	// continues (VERIF_WORLD carries the world configuration).
	Preempt bool `json:"preempt,omitempty"`
}

type hostResult struct {
	Thread int    `json:"thread"`
	Output []byte `json:"output"`
	Panic  string `json:"panic,omitempty"`
}

func callExport(in []byte) (out []byte, pan string) {
	defer func() {
		if r := recover(); r != nil {
			pan = fmt.Sprint(r)
		}
	}()
	// exactly what a C host does: NUL-terminated buffer in, NUL-terminated
	// malloc'ed buffer out, freed by the caller
	cs := (*C.char)(C.CBytes(append(append([]byte{}, in...), 0)))
	defer C.free(unsafe.Pointer(cs))
	ret := FormatPacketDslExport(cs)
	if ret == nil {
		return nil, "nil return"
	}
	out = []byte(C.GoString(ret))
	C.free(unsafe.Pointer(ret))
	return out, ""
}

func runHost(specPath string) {
	data, err := os.ReadFile(specPath)
	if err != nil {
		fmt.Fprintln(os.Stderr, "verif host:", err)
		os.Exit(97)
	}
	var spec hostSpec
	if err := json.Unmarshal(data, &spec); err != nil {
		fmt.Fprintln(os.Stderr, "verif host:", err)
		os.Exit(97)
	}
	if spec.Threads < 1 {
		spec.Threads = 1
	}
	if spec.Preempt {
		runHostPreempt(&spec)
		return
	}
	// Simulated host threads are real OS threads (goroutines locked to their
	// thread); the baton decides who runs, one call at a time, so the
	// interleaving is exactly the recorded one.
	type job struct {
		in   []byte
		done chan hostResult
	}
	chans := make([]chan job, spec.Threads)
	for t := range chans {
		chans[t] = make(chan job)
		go func(t int) {
			runtime.LockOSThread()
			for j := range chans[t] {
				out, pan := callExport(j.in)
				j.done <- hostResult{Thread: t, Output: out, Panic: pan}
			}
		}(t)
	}
	results := make([]hostResult, 0, len(spec.Calls))
	if spec.Threads == 1 {
		// a single-threaded host: every call comes from the same thread, back
		// to back, with no hand-over in between (per-thread / per-P caches such
		// as sync.Pool see the same caller again)
		for _, c := range spec.Calls {
			out, pan := callExport(c.Input)
			results = append(results, hostResult{Thread: 0, Output: out, Panic: pan})
		}
		spec.Calls = nil
	}
	for _, c := range spec.Calls {
		j := job{in: c.Input, done: make(chan hostResult, 1)}
		chans[c.Thread%spec.Threads] <- j
		results = append(results, <-j.done)
	}
	outData, _ := json.Marshal(results)
	if err := os.WriteFile(spec.Out, outData, 0o644); err != nil {
		fmt.Fprintln(os.Stderr, "verif host:", err)
		os.Exit(97)
	}
	os.Exit(0)
}

// runHostPreempt: the preemptive host world. Thread t makes its calls in the
// order they appear in spec.Calls; nothing else orders the threads.
func runHostPreempt(spec *hostSpec) {
	results := make([]hostResult, len(spec.Calls))
	dl := simrt.RunWorld(func() {
		done := make(chan int, spec.Threads)
		for t := 0; t < spec.Threads; t++ {
			id := simrt.Spawn("host-thread")
			go func(t int) {
				simrt.Park(id, "host-thread")
				for k, c := range spec.Calls {
					if c.Thread%spec.Threads != t {
						continue
					}
					simrt.Yield("host-call")
					out, pan := callExport(c.Input)
					results[k] = hostResult{Thread: t, Output: out, Panic: pan}
				}
				done <- t
			}(t)
		}
		for t := 0; t < spec.Threads; t++ {
			<-done
		}
	})
	if dl != "" {
		fmt.Fprintln(os.Stderr, "verif host:", dl)
		simrt.Exit(98)
	}
	outData, _ := json.Marshal(results)
	if err := os.WriteFile(spec.Out, outData, 0o644); err != nil {
		fmt.Fprintln(os.Stderr, "verif host:", err)
		os.Exit(97)
	}
	simrt.Exit(0)
}

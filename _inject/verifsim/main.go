//go:build verif

// Command verifsim is the library-level world runner: it executes many
// simulated worlds per process, one per request line on stdin, against the
// real (seam-rewritten) parser, model, formatter and generators.
package main

import (
	"bufio"
	"crypto/sha256"
	"encoding/hex"
	"encoding/json"
	"fmt"
	"os"
	"runtime/debug"
	"sort"
	"strings"
	"syscall"

	"github.com/xinchentechnote/fin-protoc/internal/model"
	"github.com/xinchentechnote/fin-protoc/internal/parser"
	"github.com/xinchentechnote/fin-protoc/internal/simrt"
)

type Req struct {
	ID        int          `json:"id"`
	Op        string       `json:"op"` // gen | format
	DSL       []byte       `json:"dsl"`
	History   []string     `json:"history,omitempty"`
	Fresh     bool         `json:"fresh,omitempty"` // parse a fresh model before every step
	Sched     simrt.Config `json:"sched"`
	WantBytes bool         `json:"want_bytes,omitempty"`
}

type FileOut struct {
	Sha  string `json:"sha"`
	Len  int    `json:"len"`
	Data []byte `json:"data,omitempty"`
}

type Step struct {
	Target string             `json:"target"`
	Files  map[string]FileOut `json:"files,omitempty"`
	Err    string             `json:"err,omitempty"`
	Panic  string             `json:"panic,omitempty"`
	FP     string             `json:"fp,omitempty"`
	FPText string             `json:"fp_text,omitempty"`
}

type Resp struct {
	ID         int          `json:"id"`
	ParseErr   string       `json:"parse_err,omitempty"`
	ParsePanic string       `json:"parse_panic,omitempty"`
	SemErrs    []string     `json:"sem_errs,omitempty"`
	FP0        string       `json:"fp0,omitempty"`
	FP0Text    string       `json:"fp0_text,omitempty"`
	Steps      []Step       `json:"steps,omitempty"`
	FormatOut  []byte       `json:"format_out,omitempty"`
	FormatErr  string       `json:"format_err,omitempty"`
	FormatOK   bool         `json:"format_ok,omitempty"`
	Rec        simrt.Record `json:"rec"`
}

func sha(b []byte) string {
	h := sha256.Sum256(b)
	return hex.EncodeToString(h[:])
}

func firstLine(s string) string {
	if i := strings.IndexByte(s, '\n'); i >= 0 {
		return s[:i]
	}
	return s
}

func generate(target string, m *model.BinaryModel) (out map[string][]byte, err error, pan string) {
	defer func() {
		if r := recover(); r != nil {
			pan = firstLine(fmt.Sprint(r)) + " @ " + panicSite(string(debug.Stack()))
		}
	}()
	switch target {
	case "lua":
		out, err = parser.NewLuaWspGenerator(m).Generate(m)
	case "rust":
		out, err = parser.NewRustGenerator(m).Generate(m)
	case "go":
		out, err = parser.NewGoGenerator(m).Generate(m)
	case "java":
		out, err = parser.NewJavaGenerator(m).Generate(m)
	case "python":
		out, err = parser.NewPythonGenerator(m).Generate(m)
	case "cpp":
		out, err = parser.NewCppGenerator(m).Generate(m)
	default:
		err = fmt.Errorf("verifsim: unknown target %q", target)
	}
	return
}

// panicSite extracts the innermost fin-protoc frame (function name only, no
// line numbers: they differ between the rewritten and the original source).
func panicSite(stack string) string {
	for _, ln := range strings.Split(stack, "\n") {
		if strings.Contains(ln, "fin-protoc/internal/") && !strings.Contains(ln, "simrt") && !strings.HasPrefix(ln, "\t") {
			if i := strings.LastIndex(ln, "("); i > 0 {
				ln = ln[:i]
			}
			if i := strings.LastIndex(ln, "/"); i >= 0 {
				ln = ln[i+1:]
			}
			return ln
		}
	}
	return "?"
}

func parse(path string) (m *model.BinaryModel, perr string, pan string) {
	defer func() {
		if r := recover(); r != nil {
			pan = firstLine(fmt.Sprint(r)) + " @ " + panicSite(string(debug.Stack()))
		}
	}()
	res, err := parser.ParseFile(path)
	if err != nil {
		return nil, err.Error(), ""
	}
	bm, ok := res.(*model.BinaryModel)
	if !ok {
		return nil, fmt.Sprintf("ParseFile returned %T", res), ""
	}
	return bm, "", ""
}

func runGen(req *Req, tmp string) *Resp {
	resp := &Resp{ID: req.ID}
	// The compiler is given the same relative path in every worker and in the
	// CLI worlds ("in.dsl", cwd = a private directory), so that a change which
	// records the path as given cannot look like nondeterminism.
	_ = tmp
	path := "in.dsl"
	if err := os.WriteFile(path, req.DSL, 0o644); err != nil {
		resp.ParseErr = "verifsim: " + err.Error()
		return resp
	}
	simrt.Begin(req.Sched)
	defer func() { resp.Rec = simrt.End() }()
	if dl := simrt.RunWorld(func() { runGenBody(req, resp, path) }); dl != "" {
		resp.ParsePanic = dl
	}
	return resp
}

func runGenBody(req *Req, resp *Resp, path string) {
	m, perr, pan := parse(path)
	if perr != "" || pan != "" {
		resp.ParseErr, resp.ParsePanic = perr, pan
		return
	}
	if len(m.SyntaxErrors) > 0 {
		for _, e := range m.SyntaxErrors {
			resp.SemErrs = append(resp.SemErrs, fmt.Sprintf("%d:%d %s", e.Line, e.Column, e.Msg))
		}
		return
	}
	fp := simrt.Fingerprint(m)
	resp.FP0 = sha([]byte(fp))
	if req.WantBytes {
		resp.FP0Text = fp
	}
	for _, t := range req.History {
		cur := m
		if req.Fresh {
			fm, perr, pan := parse(path)
			if perr != "" || pan != "" || fm == nil {
				resp.Steps = append(resp.Steps, Step{Target: t, Err: "fresh parse failed: " + perr + pan})
				continue
			}
			cur = fm
		}
		files, err, pan := generate(t, cur)
		st := Step{Target: t, Panic: pan}
		if err != nil {
			st.Err = err.Error()
		}
		if files != nil {
			st.Files = make(map[string]FileOut, len(files))
			names := make([]string, 0, len(files))
			for n := range files {
				names = append(names, n)
			}
			sort.Strings(names)
			for _, n := range names {
				fo := FileOut{Sha: sha(files[n]), Len: len(files[n])}
				if req.WantBytes {
					fo.Data = files[n]
				}
				st.Files[n] = fo
			}
		}
		fp := simrt.Fingerprint(cur)
		st.FP = sha([]byte(fp))
		if req.WantBytes {
			st.FPText = fp
		}
		resp.Steps = append(resp.Steps, st)
	}
}

func runFormat(req *Req) *Resp {
	resp := &Resp{ID: req.ID}
	simrt.Begin(req.Sched)
	defer func() { resp.Rec = simrt.End() }()
	dl := simrt.RunWorld(func() {
		defer func() {
			if r := recover(); r != nil {
				resp.ParsePanic = firstLine(fmt.Sprint(r)) + " @ " + panicSite(string(debug.Stack()))
			}
		}()
		out, err := parser.FormatPacketDsl(string(req.DSL))
		resp.FormatOut = []byte(out)
		if err != nil {
			resp.FormatErr = err.Error()
		} else {
			resp.FormatOK = true
		}
	})
	if dl != "" {
		resp.ParsePanic = dl
	}
	return resp
}

func main() {
	// Protocol goes over a private duplicate of stdout; fd 1 and os.Stdout
	// are pointed at /dev/null so that the repo's own Println chatter cannot
	// corrupt it.
	pfd, err := syscall.Dup(1)
	if err != nil {
		fmt.Fprintln(os.Stderr, "verifsim: dup:", err)
		os.Exit(2)
	}
	proto := os.NewFile(uintptr(pfd), "proto")
	devnull, err := os.OpenFile("/dev/null", os.O_WRONLY, 0)
	if err != nil {
		fmt.Fprintln(os.Stderr, "verifsim:", err)
		os.Exit(2)
	}
	_ = syscall.Dup2(int(devnull.Fd()), 1)
	os.Stdout = devnull
	tmp, err := os.MkdirTemp("", "verifsim-")
	if err != nil {
		fmt.Fprintln(os.Stderr, "verifsim:", err)
		os.Exit(2)
	}
	defer os.RemoveAll(tmp)
	if err := os.Chdir(tmp); err != nil {
		fmt.Fprintln(os.Stderr, "verifsim:", err)
		os.Exit(2)
	}
	in := bufio.NewReaderSize(os.Stdin, 1<<20)
	w := bufio.NewWriterSize(proto, 1<<20)
	enc := json.NewEncoder(w)
	for {
		line, err := in.ReadBytes('\n')
		if len(line) > 0 {
			var req Req
			if jerr := json.Unmarshal(line, &req); jerr != nil {
				fmt.Fprintln(os.Stderr, "verifsim: bad request:", jerr)
				os.RemoveAll(tmp)
				os.Exit(2)
			}
			var resp *Resp
			switch req.Op {
			case "gen":
				resp = runGen(&req, tmp)
			case "format":
				resp = runFormat(&req)
			default:
				resp = &Resp{ID: req.ID, ParseErr: "verifsim: unknown op " + req.Op}
			}
			if jerr := enc.Encode(resp); jerr != nil {
				fmt.Fprintln(os.Stderr, "verifsim: encode:", jerr)
				os.RemoveAll(tmp)
				os.Exit(2)
			}
			w.Flush()
		}
		if err != nil {
			break
		}
	}
}

//go:build verif

// Package simrt is the simulator runtime that the scratch-copy rewriter
// (verif/rewrite) links into a private copy of fin-protoc. It owns every
// source of nondeterminism the claimed properties depend on:
//
//   - map iteration order  (RangeMap)        choice kind "mapperm"
//   - the wall clock       (Now)             choice kind "clock"
//   - process identity     (Getpid, Rand*)   choice kinds "pid", "rand"
//   - the file system      (Os* shims)       op log + confinement + faults
//   - process exit         (Exit)            flushes the world record
//
// One PRNG seeded from the world's Seed decides everything; every decision is
// appended to the choice log. In replay mode the recorded decisions are fed
// back instead of the PRNG; exhausted or reset decisions default to 0, which
// is the identity permutation / a held clock, so schedules shrink toward "no
// perturbation".
package simrt

import (
	"encoding/json"
	"fmt"
	"os"
	"sort"
	"sync"
)

// Choice is one recorded scheduler decision.
type Choice struct {
	Kind   string `json:"k"`
	Site   string `json:"s"`
	N      int    `json:"n"` // size of the choice space that mattered (e.g. number of map keys)
	Chosen uint64 `json:"c"`
}

// Config configures one world.
type Config struct {
	Seed uint64 `json:"seed"`
	// MapMode: "sorted" (identity everywhere), "reverse", "rotate", "random",
	// "mix" (per dynamic instance one of the four), "onesite" (only OneSite is
	// perturbed, with OneSiteMode), "native" (leave Go's own order: only used
	// by the fidelity runs, not replayable).
	MapMode     string `json:"map_mode"`
	OneSite     string `json:"one_site,omitempty"`
	OneSiteMode string `json:"one_site_mode,omitempty"`
	// ClockMode: "pinned", "advance", "yearstraddle", "skew", "mix".
	ClockMode string `json:"clock_mode"`
	ClockBase int64  `json:"clock_base"` // unix nanoseconds at world start
	// IdentMode: "pinned" (pid 4242, rand stream fixed) or "vary".
	IdentMode string `json:"ident_mode"`
	// Bubble runs the world inside a synctest bubble with the goroutine
	// scheduler seam active; GoMode: "fifo" (spawn order), "lifo", "random", "mix".
	// EnvMode: "" / "pinned" (real environment) or "vary".
	EnvMode string `json:"env_mode,omitempty"`
	Bubble  bool   `json:"bubble,omitempty"`
	GoMode  string `json:"go_mode,omitempty"`
	// PreemptEvery > 0 (bubble worlds only): goroutines also park at about
	// every PreemptEvery-th preemption point (function entries, statements
	// touching package-level variables) inserted by the rewriter.
	PreemptEvery int `json:"preempt_every,omitempty"`
	// Replay, when non-nil, replaces the PRNG: decision i is Replay[i].Chosen
	// if kinds agree, else 0.
	Replay    []Choice `json:"replay,omitempty"`
	UseReplay bool     `json:"use_replay,omitempty"`
	// Sandbox confines write-class file operations (CLI worlds).
	Sandbox string `json:"sandbox,omitempty"`
	// Faults for the informational I/O-error probe: fail the Nth write-class
	// operation with the given errno name.
	FaultOpIndex int    `json:"fault_op_index,omitempty"` // 1-based; 0 = none
	FaultErrno   string `json:"fault_errno,omitempty"`
	// DenyCreate: a directory the process may not add entries to (a checkout
	// owned by somebody else, a read-only bind mount with writable files):
	// every operation that would create a NEW directory entry fails with
	// EACCES; existing files can still be opened, written and truncated.
	DenyCreate bool `json:"deny_create,omitempty"`
	// Stall (bubble worlds): the machine stalls for StallSec simulated seconds
	// just before the StallOp-th file operation of the run (1-based, reads
	// included): the goroutine sleeps on the bubble's clock, so every timer,
	// deadline and context of the process sees the time pass (at no real
	// cost), and the seamed wall clock moves with it.
	StallOp  int `json:"stall_op,omitempty"`
	StallSec int `json:"stall_sec,omitempty"`
	// Out is where Exit/Flush writes the world record (process worlds).
	Out string `json:"out,omitempty"`
}

// SiteStat is the reach table entry of one seamed map-iteration site.
type SiteStat struct {
	Execs       int `json:"execs"`
	Execs2      int `json:"execs_ge2"`    // executions that saw >= 2 keys
	NonIdentity int `json:"non_identity"` // executions where a non-identity permutation was applied to >= 2 keys
	MaxKeys     int `json:"max_keys"`
}

// Op is one entry of the file-system operation log.
type Op struct {
	Op      string `json:"op"`
	Path    string `json:"path"`
	Path2   string `json:"path2,omitempty"`
	Real    string `json:"real,omitempty"` // Path with symlinks resolved on its deepest existing ancestor
	Real2   string `json:"real2,omitempty"`
	Write   bool   `json:"write"` // write-class operation
	Flags   int    `json:"flags,omitempty"`
	Escaped bool   `json:"escaped,omitempty"` // write-class op outside the sandbox (refused)
	Fault   string `json:"fault,omitempty"`   // injected error
	Err     string `json:"err,omitempty"`
}

// Record is everything a world leaves behind besides its outputs.
type Record struct {
	Choices    []Choice            `json:"choices"`
	Sites      map[string]SiteStat `json:"sites"`
	Ops        []Op                `json:"ops"`
	ClockCalls int                 `json:"clock_calls"`
	ClockMin   int64               `json:"clock_min"`
	ClockMax   int64               `json:"clock_max"`
	Fired      map[string]int      `json:"fired"` // per fault kind: how often it actually perturbed something
	Unseamed   []string            `json:"unseamed,omitempty"`
	ExitCode   int                 `json:"exit_code"`
}

type sched struct {
	mu     sync.Mutex
	cfg    Config
	rng    rng
	rec    Record
	rpos   int
	now    int64
	writes int
	allOps int
	active bool
}

var s sched

func init() {
	if p := os.Getenv("VERIF_WORLD"); p != "" {
		data, err := os.ReadFile(p)
		if err != nil {
			fmt.Fprintln(os.Stderr, "simrt: cannot read VERIF_WORLD:", err)
			os.Exit(97)
		}
		var c Config
		if err := json.Unmarshal(data, &c); err != nil {
			fmt.Fprintln(os.Stderr, "simrt: bad VERIF_WORLD:", err)
			os.Exit(97)
		}
		Begin(c)
	} else {
		Begin(Config{MapMode: "sorted", ClockMode: "pinned", ClockBase: DefaultClockBase, IdentMode: "pinned"})
	}
}

// DefaultClockBase is 2026-06-15T12:00:00Z.
const DefaultClockBase int64 = 1781524800 * 1e9

// Begin starts a new world in this process.
func Begin(c Config) {
	s.mu.Lock()
	defer s.mu.Unlock()
	if c.MapMode == "" {
		c.MapMode = "sorted"
	}
	if c.ClockMode == "" {
		c.ClockMode = "pinned"
	}
	if c.ClockBase == 0 {
		c.ClockBase = DefaultClockBase
	}
	if c.IdentMode == "" {
		c.IdentMode = "pinned"
	}
	s.cfg = c
	s.rng = newRng(c.Seed)
	s.rec = Record{Sites: map[string]SiteStat{}, Fired: map[string]int{}}
	s.rpos = 0
	s.now = c.ClockBase
	s.rec.ClockMin = c.ClockBase
	s.rec.ClockMax = c.ClockBase
	s.writes = 0
	s.allOps = 0
	s.active = true
}

// End finishes the world and returns its record.
func End() Record {
	s.mu.Lock()
	defer s.mu.Unlock()
	r := s.rec
	r.Choices = append([]Choice(nil), s.rec.Choices...)
	r.Ops = append([]Op(nil), s.rec.Ops...)
	sites := make(map[string]SiteStat, len(s.rec.Sites))
	ks := make([]string, 0, len(s.rec.Sites))
	for k := range s.rec.Sites {
		ks = append(ks, k)
	}
	sort.Strings(ks)
	for _, k := range ks {
		sites[k] = s.rec.Sites[k]
	}
	r.Sites = sites
	return r
}

// Flush writes the record to cfg.Out (process worlds).
func Flush(code int) {
	r := End()
	r.ExitCode = code
	if s.cfg.Out == "" {
		return
	}
	data, _ := json.Marshal(r)
	_ = os.WriteFile(s.cfg.Out, data, 0o644)
}

// Exit replaces os.Exit in rewritten code.
func Exit(code int) {
	Flush(code)
	os.Exit(code)
}

// decide draws (or replays) one decision. draw is only called in PRNG mode.
func (sc *sched) decide(kind, site string, n int, draw func(r *rng) uint64) uint64 {
	var v uint64
	if sc.cfg.UseReplay {
		if sc.rpos < len(sc.cfg.Replay) {
			c := sc.cfg.Replay[sc.rpos]
			if c.Kind == kind {
				v = c.Chosen
			}
		}
		sc.rpos++
	} else {
		v = draw(&sc.rng)
	}
	sc.rec.Choices = append(sc.rec.Choices, Choice{Kind: kind, Site: site, N: n, Chosen: v})
	return v
}

func noteUnseamed(msg string) {
	for _, u := range s.rec.Unseamed {
		if u == msg {
			return
		}
	}
	s.rec.Unseamed = append(s.rec.Unseamed, msg)
}

// ---- PRNG: splitmix64-seeded xoshiro256** ----

type rng struct{ s [4]uint64 }

func splitmix(x *uint64) uint64 {
	*x += 0x9e3779b97f4a7c15
	z := *x
	z = (z ^ (z >> 30)) * 0xbf58476d1ce4e5b9
	z = (z ^ (z >> 27)) * 0x94d049bb133111eb
	return z ^ (z >> 31)
}

func newRng(seed uint64) rng {
	var r rng
	x := seed
	for i := range r.s {
		r.s[i] = splitmix(&x)
	}
	return r
}

func rotl(x uint64, k uint) uint64 { return (x << k) | (x >> (64 - k)) }

func (r *rng) next() uint64 {
	res := rotl(r.s[1]*5, 7) * 9
	t := r.s[1] << 17
	r.s[2] ^= r.s[0]
	r.s[3] ^= r.s[1]
	r.s[1] ^= r.s[2]
	r.s[0] ^= r.s[3]
	r.s[2] ^= t
	r.s[3] = rotl(r.s[3], 45)
	return res
}

func (r *rng) intn(n int) int {
	if n <= 1 {
		return 0
	}
	return int(r.next() % uint64(n))
}

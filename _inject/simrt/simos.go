//go:build verif

package simrt

import (
	"time"
	"io/fs"
	"os"
	"path/filepath"
	"strings"
	"syscall"
)

// The simulated disk: every path-taking os function used by rewritten code
// goes through one of these shims. A shim appends to the op log, confines
// write-class operations to the world's sandbox root, optionally injects a
// fault, and otherwise delegates to the real os call, so *os.File and all
// other types are unchanged.

func absClean(p string) string {
	a, err := filepath.Abs(p)
	if err != nil {
		return filepath.Clean(p)
	}
	return a
}

// resolve follows symlinks on the deepest existing ancestor of p.
func resolve(p string) string {
	a := absClean(p)
	rest := ""
	cur := a
	for {
		if r, err := filepath.EvalSymlinks(cur); err == nil {
			return filepath.Join(r, rest)
		}
		parent := filepath.Dir(cur)
		if parent == cur {
			return a
		}
		rest = filepath.Join(filepath.Base(cur), rest)
		cur = parent
	}
}

func inSandbox(p string) bool {
	sb := s.cfg.Sandbox
	if sb == "" {
		return true
	}
	r := resolve(p)
	return r == sb || strings.HasPrefix(r, sb+string(filepath.Separator))
}

var errnoByName = map[string]syscall.Errno{
	"EACCES": syscall.EACCES, "ENOSPC": syscall.ENOSPC, "EIO": syscall.EIO,
	"EROFS": syscall.EROFS, "EDQUOT": syscall.EDQUOT, "EMFILE": syscall.EMFILE,
}

// gate logs an operation and returns a non-nil error if it must not proceed.
func gate(op, path, path2 string, write bool, flags int) (int, error) {
	s.mu.Lock()
	s.allOps++
	stall := 0
	if s.cfg.StallOp != 0 && s.allOps == s.cfg.StallOp && s.cfg.StallSec > 0 && gs.active {
		stall = s.cfg.StallSec
		s.rec.Fired["machine_stall"]++
		s.now += int64(stall) * int64(time.Second)
	}
	s.mu.Unlock()
	if stall > 0 {
		time.Sleep(time.Duration(stall) * time.Second) // the bubble's clock
	}
	return gateLogged(op, path, path2, write, flags)
}

func gateLogged(op, path, path2 string, write bool, flags int) (int, error) {
	s.mu.Lock()
	defer s.mu.Unlock()
	o := Op{Op: op, Path: absClean(path), Write: write, Flags: flags}
	if write {
		o.Real = resolve(path)
	}
	if path2 != "" {
		o.Path2 = absClean(path2)
		if write {
			o.Real2 = resolve(path2)
		}
	}
	var err error
	if write {
		s.writes++
		if !inSandbox(path) || (path2 != "" && !inSandbox(path2)) {
			o.Escaped = true
			s.rec.Fired["escape_refused"]++
			err = &fs.PathError{Op: op, Path: path, Err: syscall.EACCES}
		} else if s.cfg.DenyCreate && createsEntry(op, path, path2, flags) {
			o.Fault = "EACCES"
			s.rec.Fired["io_error_create_denied"]++
			err = &fs.PathError{Op: op, Path: path, Err: syscall.EACCES}
		} else if s.cfg.FaultOpIndex != 0 && s.writes == s.cfg.FaultOpIndex {
			o.Fault = s.cfg.FaultErrno
			s.rec.Fired["io_error_"+s.cfg.FaultErrno]++
			e, ok := errnoByName[s.cfg.FaultErrno]
			if !ok {
				e = syscall.EIO
			}
			err = &fs.PathError{Op: op, Path: path, Err: e}
		}
	}
	s.rec.Ops = append(s.rec.Ops, o)
	return len(s.rec.Ops) - 1, err
}

// createsEntry: would this write-class operation add a directory entry?
func createsEntry(op, path, path2 string, flags int) bool {
	missing := func(p string) bool { _, err := os.Lstat(p); return err != nil }
	switch op {
	case "createtemp", "mkdirtemp":
		return true
	case "rename", "link", "symlink":
		if path2 != "" {
			return missing(path2)
		}
		return missing(path)
	case "openfile":
		return flags&os.O_CREATE != 0 && missing(path)
	case "create", "writefile", "mkdir", "mkdirall":
		return missing(path)
	}
	return false
}

func done(i int, err error) {
	if err == nil {
		return
	}
	s.mu.Lock()
	s.rec.Ops[i].Err = err.Error()
	s.mu.Unlock()
}

func isWriteFlag(flag int) bool {
	return flag&(os.O_WRONLY|os.O_RDWR|os.O_APPEND|os.O_CREATE|os.O_TRUNC) != 0
}

func OsReadFile(name string) ([]byte, error) {
	i, _ := gate("readfile", name, "", false, 0)
	b, err := os.ReadFile(name)
	done(i, err)
	return b, err
}

func OsWriteFile(name string, data []byte, perm os.FileMode) error {
	i, err := gate("writefile", name, "", true, 0)
	if err == nil {
		err = os.WriteFile(name, data, perm)
	} else if s.rec.Ops[i].Fault != "" {
		// a failing write of a real disk has already truncated the file
		if f, e := os.OpenFile(name, os.O_WRONLY|os.O_CREATE|os.O_TRUNC, perm); e == nil {
			f.Close()
		}
	}
	done(i, err)
	return err
}

func OsCreate(name string) (*os.File, error) {
	i, err := gate("create", name, "", true, os.O_RDWR|os.O_CREATE|os.O_TRUNC)
	var f *os.File
	if err == nil {
		f, err = os.Create(name)
	}
	done(i, err)
	return f, err
}

func OsOpen(name string) (*os.File, error) {
	i, _ := gate("open", name, "", false, 0)
	f, err := os.Open(name)
	done(i, err)
	return f, err
}

func OsOpenFile(name string, flag int, perm os.FileMode) (*os.File, error) {
	i, err := gate("openfile", name, "", isWriteFlag(flag), flag)
	var f *os.File
	if err == nil {
		f, err = os.OpenFile(name, flag, perm)
	}
	done(i, err)
	return f, err
}

func OsMkdir(name string, perm os.FileMode) error {
	i, err := gate("mkdir", name, "", true, 0)
	if err == nil {
		err = os.Mkdir(name, perm)
	}
	done(i, err)
	return err
}

func OsMkdirAll(path string, perm os.FileMode) error {
	i, err := gate("mkdirall", path, "", true, 0)
	if err == nil {
		err = os.MkdirAll(path, perm)
	}
	done(i, err)
	return err
}

func OsRemove(name string) error {
	i, err := gate("remove", name, "", true, 0)
	if err == nil {
		err = os.Remove(name)
	}
	done(i, err)
	return err
}

func OsRemoveAll(path string) error {
	i, err := gate("removeall", path, "", true, 0)
	if err == nil {
		err = os.RemoveAll(path)
	}
	done(i, err)
	return err
}

func OsRename(oldpath, newpath string) error {
	i, err := gate("rename", oldpath, newpath, true, 0)
	if err == nil {
		err = os.Rename(oldpath, newpath)
	}
	done(i, err)
	return err
}

func OsTruncate(name string, size int64) error {
	i, err := gate("truncate", name, "", true, 0)
	if err == nil {
		err = os.Truncate(name, size)
	}
	done(i, err)
	return err
}

func OsChmod(name string, mode os.FileMode) error {
	i, err := gate("chmod", name, "", true, 0)
	if err == nil {
		err = os.Chmod(name, mode)
	}
	done(i, err)
	return err
}

func OsSymlink(oldname, newname string) error {
	i, err := gate("symlink", newname, "", true, 0)
	if err == nil {
		err = os.Symlink(oldname, newname)
	}
	done(i, err)
	return err
}

func OsLink(oldname, newname string) error {
	i, err := gate("link", newname, "", true, 0)
	if err == nil {
		err = os.Link(oldname, newname)
	}
	done(i, err)
	return err
}

func OsStat(name string) (os.FileInfo, error) {
	i, _ := gate("stat", name, "", false, 0)
	fi, err := os.Stat(name)
	done(i, err)
	return fi, err
}

func OsLstat(name string) (os.FileInfo, error) {
	i, _ := gate("lstat", name, "", false, 0)
	fi, err := os.Lstat(name)
	done(i, err)
	return fi, err
}

func OsReadDir(name string) ([]os.DirEntry, error) {
	i, _ := gate("readdir", name, "", false, 0)
	d, err := os.ReadDir(name)
	done(i, err)
	return d, err
}

func tempName(pattern string) string {
	suffix := itoa(identDraw("tempname", 123456789) % 1000000000)
	if j := strings.LastIndex(pattern, "*"); j >= 0 {
		return pattern[:j] + suffix + pattern[j+1:]
	}
	return pattern + suffix
}

func itoa(v uint64) string {
	if v == 0 {
		return "0"
	}
	var b [20]byte
	i := len(b)
	for v > 0 {
		i--
		b[i] = byte('0' + v%10)
		v /= 10
	}
	return string(b[i:])
}

func OsCreateTemp(dir, pattern string) (*os.File, error) {
	if dir == "" {
		dir = os.TempDir()
	}
	name := filepath.Join(dir, tempName(pattern))
	i, err := gate("createtemp", name, "", true, 0)
	var f *os.File
	if err == nil {
		f, err = os.OpenFile(name, os.O_RDWR|os.O_CREATE|os.O_EXCL, 0o600)
	}
	done(i, err)
	return f, err
}

func OsMkdirTemp(dir, pattern string) (string, error) {
	if dir == "" {
		dir = os.TempDir()
	}
	name := filepath.Join(dir, tempName(pattern))
	i, err := gate("mkdirtemp", name, "", true, 0)
	if err == nil {
		err = os.Mkdir(name, 0o700)
	}
	done(i, err)
	return name, err
}

//go:build verif

package simrt

import "os"

// The process environment seam: os.Getenv / os.LookupEnv in rewritten code.
// In the reference schedule the real environment is passed through; in "vary"
// worlds every variable the code reads may come back with another value or
// flip between set and unset (choice kind "env", site = variable name). Any
// value is a legal environment, so this cannot create behaviours real
// executions lack.

var envAlternatives = []string{"", "alt", "messages", "1", "/opt/alt/dir", "Zürich", "0"}

func envDecide(name string) uint64 {
	s.mu.Lock()
	defer s.mu.Unlock()
	mode := s.cfg.EnvMode
	v := s.decide("env", name, len(envAlternatives)+1, func(r *rng) uint64 {
		if mode == "vary" {
			return uint64(1 + r.intn(len(envAlternatives)))
		}
		return 0
	})
	if v != 0 {
		s.rec.Fired["env_varied"]++
	}
	return v
}

// Getenv replaces os.Getenv.
func Getenv(name string) string {
	v := envDecide(name)
	if v == 0 {
		return os.Getenv(name)
	}
	return envAlternatives[int(v-1)%len(envAlternatives)]
}

// LookupEnv replaces os.LookupEnv.
func LookupEnv(name string) (string, bool) {
	v := envDecide(name)
	if v == 0 {
		return os.LookupEnv(name)
	}
	alt := envAlternatives[int(v-1)%len(envAlternatives)]
	if alt == "" {
		return "", false
	}
	return alt, true
}

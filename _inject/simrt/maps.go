//go:build verif

package simrt

import (
	"fmt"
	"iter"
	"reflect"
	"sort"
	"strconv"
	"strings"
)

// Permutation modes encoded in the low byte of a "mapperm" decision.
const (
	PermIdentity = 0
	PermReverse  = 1
	PermRotate   = 2 // param = rotation
	PermRandom   = 3 // param = sub-seed
)

// RangeMap replaces `range m` over a map in rewritten code. Any order is a
// legal behaviour of map iteration under the Go specification; entries
// deleted during iteration are skipped and entries added are not produced
// (both allowed by the spec), values are read at the time they are yielded.
func RangeMap[M ~map[K]V, K comparable, V any](site string, m M) iter.Seq2[K, V] {
	return func(yield func(K, V) bool) {
		if s.cfg.MapMode == "native" {
			for k, v := range m {
				if !yield(k, v) {
					return
				}
			}
			return
		}
		keys := make([]K, 0, len(m))
		for k := range m {
			keys = append(keys, k)
		}
		sortKeys(site, keys)
		perm := permFor(site, len(keys))
		for _, i := range perm {
			k := keys[i]
			v, ok := m[k]
			if !ok {
				continue
			}
			if !yield(k, v) {
				return
			}
		}
	}
}

// MapKeysOf replaces maps.Keys(m) (std iterator form).
func MapKeysOf[M ~map[K]V, K comparable, V any](site string, m M) iter.Seq[K] {
	return func(yield func(K) bool) {
		for k := range RangeMap(site, m) {
			if !yield(k) {
				return
			}
		}
	}
}

// MapValuesOf replaces maps.Values(m) (std iterator form).
func MapValuesOf[M ~map[K]V, K comparable, V any](site string, m M) iter.Seq[V] {
	return func(yield func(V) bool) {
		for _, v := range RangeMap(site, m) {
			if !yield(v) {
				return
			}
		}
	}
}

// MapKeysSlice replaces golang.org/x/exp/maps.Keys(m) (slice form).
func MapKeysSlice[M ~map[K]V, K comparable, V any](site string, m M) []K {
	out := make([]K, 0, len(m))
	for k := range RangeMap(site, m) {
		out = append(out, k)
	}
	return out
}

// MapValuesSlice replaces golang.org/x/exp/maps.Values(m) (slice form).
func MapValuesSlice[M ~map[K]V, K comparable, V any](site string, m M) []V {
	out := make([]V, 0, len(m))
	for _, v := range RangeMap(site, m) {
		out = append(out, v)
	}
	return out
}

func permFor(site string, n int) []int {
	s.mu.Lock()
	defer s.mu.Unlock()
	st := s.rec.Sites[site]
	st.Execs++
	if n >= 2 {
		st.Execs2++
	}
	if n > st.MaxKeys {
		st.MaxKeys = n
	}
	perm := make([]int, n)
	for i := range perm {
		perm[i] = i
	}
	if n < 2 {
		s.rec.Sites[site] = st
		return perm
	}
	mode := s.cfg.MapMode
	if mode == "onesite" {
		if site == s.cfg.OneSite {
			mode = s.cfg.OneSiteMode
		} else {
			mode = "sorted"
		}
	}
	v := s.decide("mapperm", site, n, func(r *rng) uint64 {
		m := mode
		if m == "mix" {
			m = []string{"sorted", "reverse", "rotate", "random", "random"}[r.intn(5)]
		}
		switch m {
		case "reverse":
			return PermReverse
		case "rotate":
			return PermRotate | uint64(1+r.intn(n-1))<<8
		case "random":
			return PermRandom | (r.next()&0xffffffff)<<8
		}
		return PermIdentity
	})
	applyPerm(perm, v)
	ident := true
	for i, p := range perm {
		if i != p {
			ident = false
			break
		}
	}
	if !ident {
		st.NonIdentity++
		s.rec.Fired["mapperm"]++
	}
	s.rec.Sites[site] = st
	return perm
}

func applyPerm(perm []int, v uint64) {
	n := len(perm)
	switch v & 0xff {
	case PermReverse:
		for i, j := 0, n-1; i < j; i, j = i+1, j-1 {
			perm[i], perm[j] = perm[j], perm[i]
		}
	case PermRotate:
		r := int((v >> 8) % uint64(n))
		tmp := append([]int(nil), perm...)
		for i := range perm {
			perm[i] = tmp[(i+r)%n]
		}
	case PermRandom:
		x := v >> 8
		for i := n - 1; i > 0; i-- {
			j := int(splitmix(&x) % uint64(i+1))
			perm[i], perm[j] = perm[j], perm[i]
		}
	}
}

// sortKeys puts keys into a canonical order that depends only on key values.
func sortKeys[K comparable](site string, keys []K) {
	switch ks := any(keys).(type) {
	case []string:
		sort.Strings(ks)
		return
	case []int:
		sort.Ints(ks)
		return
	}
	enc := make([]string, len(keys))
	for i, k := range keys {
		enc[i] = EncodeValue(reflect.ValueOf(k))
	}
	idx := make([]int, len(keys))
	for i := range idx {
		idx[i] = i
	}
	sort.SliceStable(idx, func(a, b int) bool { return enc[idx[a]] < enc[idx[b]] })
	for i := 1; i < len(idx); i++ {
		if enc[idx[i]] == enc[idx[i-1]] {
			s.mu.Lock()
			noteUnseamed(fmt.Sprintf("map keys at %s have no value-based canonical order (two keys encode alike)", site))
			s.mu.Unlock()
			break
		}
	}
	out := make([]K, len(keys))
	for i, j := range idx {
		out[i] = keys[j]
	}
	copy(keys, out)
}

// EncodeValue is a canonical, address-free rendering of a value: pointers are
// replaced by first-visit numbers, maps are walked in sorted key order, only
// exported struct fields are included. Numbers sort numerically for the common
// integer kinds because they are rendered fixed-width.
func EncodeValue(v reflect.Value) string {
	var b strings.Builder
	e := encoder{seen: map[uintptr]int{}, b: &b}
	e.enc(v, 0)
	return b.String()
}

type encoder struct {
	seen map[uintptr]int
	b    *strings.Builder
}

func (e *encoder) enc(v reflect.Value, depth int) {
	if !v.IsValid() {
		e.b.WriteString("<invalid>")
		return
	}
	if depth > 64 {
		e.b.WriteString("<deep>")
		return
	}
	switch v.Kind() {
	case reflect.Bool:
		e.b.WriteString(strconv.FormatBool(v.Bool()))
	case reflect.Int, reflect.Int8, reflect.Int16, reflect.Int32, reflect.Int64:
		fmt.Fprintf(e.b, "i%020d", uint64(v.Int())^(1<<63))
	case reflect.Uint, reflect.Uint8, reflect.Uint16, reflect.Uint32, reflect.Uint64, reflect.Uintptr:
		fmt.Fprintf(e.b, "u%020d", v.Uint())
	case reflect.Float32, reflect.Float64:
		e.b.WriteString(strconv.FormatFloat(v.Float(), 'g', -1, 64))
	case reflect.String:
		e.b.WriteString(strconv.Quote(v.String()))
	case reflect.Pointer:
		if v.IsNil() {
			e.b.WriteString("nil")
			return
		}
		p := v.Pointer()
		if n, ok := e.seen[p]; ok {
			fmt.Fprintf(e.b, "&#%d", n)
			return
		}
		n := len(e.seen) + 1
		e.seen[p] = n
		fmt.Fprintf(e.b, "&#%d=", n)
		e.enc(v.Elem(), depth+1)
	case reflect.Interface:
		if v.IsNil() {
			e.b.WriteString("nil")
			return
		}
		e.b.WriteString("(" + v.Elem().Type().String() + ")")
		e.enc(v.Elem(), depth+1)
	case reflect.Struct:
		t := v.Type()
		e.b.WriteString(t.Name() + "{")
		for i := 0; i < v.NumField(); i++ {
			if !t.Field(i).IsExported() {
				continue
			}
			e.b.WriteString(t.Field(i).Name + ":")
			e.enc(v.Field(i), depth+1)
			e.b.WriteString(";")
		}
		e.b.WriteString("}")
	case reflect.Slice:
		if v.IsNil() {
			e.b.WriteString("nil[]")
			return
		}
		fallthrough
	case reflect.Array:
		e.b.WriteString("[")
		for i := 0; i < v.Len(); i++ {
			e.enc(v.Index(i), depth+1)
			e.b.WriteString(",")
		}
		e.b.WriteString("]")
	case reflect.Map:
		if v.IsNil() {
			e.b.WriteString("nilmap")
			return
		}
		type kv struct {
			k string
			v reflect.Value
		}
		var kvs []kv
		it := v.MapRange()
		for it.Next() {
			// keys are encoded with a private encoder so that numbering of
			// pointers reached only through keys cannot depend on map order
			kvs = append(kvs, kv{EncodeValue(it.Key()), it.Value()})
		}
		sort.Slice(kvs, func(a, b int) bool { return kvs[a].k < kvs[b].k })
		e.b.WriteString("map{")
		for _, x := range kvs {
			e.b.WriteString(x.k + "=>")
			e.enc(x.v, depth+1)
			e.b.WriteString(";")
		}
		e.b.WriteString("}")
	case reflect.Func, reflect.Chan, reflect.UnsafePointer:
		if v.IsNil() {
			e.b.WriteString("nil")
		} else {
			e.b.WriteString("<" + v.Kind().String() + ">")
		}
	default:
		e.b.WriteString("<" + v.Kind().String() + ">")
	}
}

// Fingerprint renders the exported state of an object graph (used by the C14
// "model unchanged" invariant).
func Fingerprint(x any) string { return EncodeValue(reflect.ValueOf(x)) }

//go:build verif

package simrt

// Process identity and unseeded randomness: what differs between two runs of
// the same command even when input, flags, clock and map order agree.

func identDraw(site string, pinned uint64) uint64 {
	s.mu.Lock()
	defer s.mu.Unlock()
	mode := s.cfg.IdentMode
	v := s.decide("ident", site, 0, func(r *rng) uint64 {
		if mode == "vary" {
			return r.next()
		}
		return 0
	})
	if v == 0 {
		return pinned
	}
	s.rec.Fired["ident_"+site]++
	return v
}

// Getpid replaces os.Getpid.
func Getpid() int { return int(identDraw("pid", 4242)%4194304) + 1 }

// Getppid replaces os.Getppid.
func Getppid() int { return int(identDraw("ppid", 4241)%4194304) + 1 }

// Hostname replaces os.Hostname.
func Hostname() (string, error) {
	v := identDraw("hostname", 0)
	if v == 0 {
		return "simhost", nil
	}
	return "host-" + itoa(v%100000), nil
}

// Getuid and friends replace os.Getuid / Geteuid / Getgid / Getegid.
func Getuid() int  { return int(identDraw("uid", 1000) % 60000) }
func Geteuid() int { return int(identDraw("uid", 1000) % 60000) }
func Getgid() int  { return int(identDraw("gid", 1000) % 60000) }
func Getegid() int { return int(identDraw("gid", 1000) % 60000) }

// RandUint64 is the base of the math/rand top-level function shims.
func RandUint64() uint64 { return identDraw("rand", 0x5eed5eed5eed5eed) }

func RandInt63() int64   { return int64(RandUint64() >> 1) }
func RandInt31() int32   { return int32(RandUint64() >> 33) }
func RandUint32() uint32 { return uint32(RandUint64() >> 32) }
func RandInt() int       { return int(uint(RandUint64() >> 1)) }
func RandIntn(n int) int {
	if n <= 0 {
		panic("invalid argument to Intn")
	}
	return int(RandUint64() % uint64(n))
}
func RandInt63n(n int64) int64 {
	if n <= 0 {
		panic("invalid argument to Int63n")
	}
	return int64(RandUint64() % uint64(n))
}
func RandInt31n(n int32) int32 {
	if n <= 0 {
		panic("invalid argument to Int31n")
	}
	return int32(RandUint64() % uint64(n))
}
func RandFloat64() float64 { return float64(RandUint64()>>11) / (1 << 53) }
func RandFloat32() float32 { return float32(RandUint64()>>40) / (1 << 24) }
func RandPerm(n int) []int {
	p := make([]int, n)
	for i := range p {
		p[i] = i
	}
	for i := n - 1; i > 0; i-- {
		j := RandIntn(i + 1)
		p[i], p[j] = p[j], p[i]
	}
	return p
}
func RandShuffle(n int, swap func(i, j int)) {
	for i := n - 1; i > 0; i-- {
		swap(i, RandIntn(i+1))
	}
}
func RandSeed(int64) {}

// math/rand/v2 spellings
func RandIntN(n int) int          { return RandIntn(n) }
func RandInt64() int64            { return RandInt63() }
func RandInt64N(n int64) int64    { return RandInt63n(n) }
func RandInt32() int32            { return RandInt31() }
func RandInt32N(n int32) int32    { return RandInt31n(n) }
func RandUint64N(n uint64) uint64 { return RandUint64() % n }
func RandUint32N(n uint32) uint32 { return uint32(RandUint64() % uint64(n)) }
func RandUintN(n uint) uint       { return uint(RandUint64() % uint64(n)) }
func RandUint() uint              { return uint(RandUint64()) }

//go:build verif

package simrt

import (
	"time"
)

// Clock decision modes (low byte of a "clock" decision; param in the rest).
const (
	ClockHold      = 0
	ClockAdvance   = 1 // param = nanoseconds forward
	ClockYearEnd   = 2 // jump to 1ns before the next New Year (UTC)
	ClockYearStart = 3 // jump to the next New Year (UTC) exactly
	ClockBackwards = 4 // param = nanoseconds backwards (skew / NTP step)
)

// Now replaces time.Now in rewritten code: the only clock the system reads.
func Now() time.Time {
	s.mu.Lock()
	defer s.mu.Unlock()
	s.rec.ClockCalls++
	call := s.rec.ClockCalls
	mode := s.cfg.ClockMode
	v := s.decide("clock", "", 0, func(r *rng) uint64 {
		m := mode
		if m == "mix" {
			m = []string{"pinned", "advance", "advance", "yearstraddle", "skew"}[r.intn(5)]
		}
		switch m {
		case "advance":
			// ns .. hours, log-uniform
			exp := r.intn(44) // up to 2^43 ns ~ 2.4h
			return ClockAdvance | (uint64(1)<<uint(exp)+r.next()%(uint64(1)<<uint(exp)))<<8
		case "yearstraddle":
			// odd calls land just before the boundary, even calls on it
			if call%2 == 1 {
				return ClockYearEnd
			}
			return ClockYearStart
		case "skew":
			exp := r.intn(56) // up to ~2 years backwards
			return ClockBackwards | (uint64(1)<<uint(exp))<<8
		}
		return ClockHold
	})
	switch v & 0xff {
	case ClockAdvance:
		s.now += int64(v >> 8)
		s.rec.Fired["clock_advance"]++
	case ClockYearEnd:
		t := time.Unix(0, s.now).UTC()
		s.now = time.Date(t.Year()+1, 1, 1, 0, 0, 0, 0, time.UTC).UnixNano() - 1
		s.rec.Fired["clock_year_end"]++
	case ClockYearStart:
		t := time.Unix(0, s.now).UTC()
		s.now = time.Date(t.Year()+1, 1, 1, 0, 0, 0, 0, time.UTC).UnixNano()
		s.rec.Fired["clock_year_start"]++
	case ClockBackwards:
		s.now -= int64(v >> 8)
		s.rec.Fired["clock_backwards"]++
	}
	if s.now < s.rec.ClockMin {
		s.rec.ClockMin = s.now
	}
	if s.now > s.rec.ClockMax {
		s.rec.ClockMax = s.now
	}
	return time.Unix(0, s.now).UTC()
}

// Since replaces time.Since.
func Since(t time.Time) time.Duration { return Now().Sub(t) }

// Until replaces time.Until.
func Until(t time.Time) time.Duration { return t.Sub(Now()) }

//go:build verif

package simrt

import (
	"fmt"
	"runtime"
	"sort"
	"strconv"
	"sync"
	"sync/atomic"
	_ "unsafe" // for linkname
)

// Goroutine scheduling seam.
//
// The rewriter turns every `go` statement of the repository into
//
//	id := simrt.Spawn(site)
//	go func() { simrt.Park(id, site); <original call> }()
//	simrt.Yield(site)
//
// puts a yield in front of every channel send statement, and replaces
// mu.Lock() / mu.Unlock() (sync.Mutex, sync.RWMutex, also RLock / RUnlock) by
// cooperative versions (simrt.Lock / Unlock ...).
//
// In a bubble world (Config.Bubble) the whole world runs inside a runtime
// synctest bubble (internal/synctest, reached by linkname; the scratch build
// passes -ldflags=-checklinkname=0). A goroutine that reaches a yield point
// parks on a private channel; one scheduler goroutine waits until every other
// goroutine of the bubble is parked or durably blocked (synctest.Wait), then
// releases exactly one eligible parked goroutine, chosen by the world's PRNG
// (choice kind "gosched"). Released goroutines run until they finish, reach
// the next yield point or block durably, so the interleaving — in particular
// the order in which critical sections are entered and values are sent — is a
// sequence of coarse steps fully determined by the choice log: replayable and
// shrinkable. Parked goroutines are ordered by (spawn id, per-goroutine yield
// count), which does not depend on timing; decision 0 = the first in that
// order = "oldest goroutine first".
//
// A goroutine that fails to TryLock parks as a waiter of that mutex and only
// becomes eligible again when the mutex is unlocked, so a parked holder can
// never stall the bubble.
//
// Outside bubble worlds all of this degenerates to the native operations.

//go:linkname synctestRun internal/synctest.Run
func synctestRun(f func())

//go:linkname synctestWait internal/synctest.Wait
func synctestWait()

type parkedG struct {
	id      int
	seq     int
	site    string
	ch      chan struct{}
	waitsOn any // a mutex this goroutine could not lock; nil = eligible
}

type simG struct {
	id  int
	seq int
	pre uint64 // preemption points passed so far
}

// preemptOn is true only inside a bubble world with Config.PreemptEvery > 0.
var preemptOn atomic.Bool

// Preempt is a preemption point (function entry, statement touching a
// package-level variable). Outside preemptive worlds it costs one atomic
// load. Inside one, the goroutine parks at the points selected by a hash of
// (world seed, goroutine id, how many points this goroutine has passed), on
// average every PreemptEvery-th, and the scheduler decides who runs next.
// The selection depends on nothing but the seed and the goroutine's own
// progress, so it replays without being logged.
func Preempt(site string) {
	if !preemptOn.Load() {
		return
	}
	s.mu.Lock()
	if !gs.active || s.cfg.PreemptEvery <= 0 {
		s.mu.Unlock()
		return
	}
	sg := gs.me()
	sg.pre++
	x := s.cfg.Seed ^ uint64(sg.id)*0x9e3779b97f4a7c15 ^ sg.pre*0xbf58476d1ce4e5b9
	if splitmix(&x)%uint64(s.cfg.PreemptEvery) != 0 {
		s.mu.Unlock()
		return
	}
	s.rec.Fired["preempt"]++
	park(site, sg, nil)
}

type goState struct {
	active  bool
	parked  []*parkedG
	nextID  int
	byGoid  map[uint64]*simG
	wake    chan struct{}
	done    chan struct{}
	fin     bool
	retries int
	once    map[*sync.Once]int // 1 = f is running in some goroutine, 2 = done
}

var gs goState

// goid parses the current goroutine's id out of its stack header. Slow, and
// only used inside bubble worlds.
func goid() uint64 {
	var buf [64]byte
	n := runtime.Stack(buf[:], false)
	// "goroutine 123 [running]:"
	s := buf[:n]
	const p = len("goroutine ")
	i := p
	for i < len(s) && s[i] >= '0' && s[i] <= '9' {
		i++
	}
	id, _ := strconv.ParseUint(string(s[p:i]), 10, 64)
	return id
}

// Spawn allocates the id of a goroutine about to be started. It runs in the
// parent, i.e. while the parent holds the baton, so ids are deterministic.
func Spawn(site string) int {
	s.mu.Lock()
	defer s.mu.Unlock()
	gs.nextID++
	return gs.nextID
}

func (g *goState) me() *simG {
	id := goid()
	if sg, ok := g.byGoid[id]; ok {
		return sg
	}
	// a goroutine the rewriter never saw being started (library code): give it
	// an id of its own; rare, and outside what the choice log can pin down
	g.nextID++
	sg := &simG{id: 1<<20 + g.nextID}
	g.byGoid[id] = sg
	return sg
}

// park blocks the calling goroutine until the scheduler releases it.
func park(site string, sg *simG, waitsOn any) {
	ch := make(chan struct{})
	sg.seq++
	gs.parked = append(gs.parked, &parkedG{id: sg.id, seq: sg.seq, site: site, ch: ch, waitsOn: waitsOn})
	wake := gs.wake
	s.mu.Unlock()
	select {
	case wake <- struct{}{}:
	default:
	}
	<-ch
}

// Park is the first thing a spawned goroutine does.
func Park(id int, site string) {
	s.mu.Lock()
	if !gs.active {
		s.mu.Unlock()
		return
	}
	sg := &simG{id: id}
	gs.byGoid[goid()] = sg
	park(site, sg, nil)
}

// Yield is a scheduling point: after a go statement, before a channel send.
func Yield(site string) {
	s.mu.Lock()
	if !gs.active {
		s.mu.Unlock()
		return
	}
	park(site, gs.me(), nil)
}

type locker interface {
	Lock()
	TryLock() bool
}

type rlocker interface {
	RLock()
	TryRLock() bool
}

// Lock replaces mu.Lock() for sync.Mutex and sync.RWMutex.
func Lock(site string, m locker) {
	for {
		s.mu.Lock()
		if !gs.active {
			s.mu.Unlock()
			m.Lock()
			return
		}
		park(site, gs.me(), nil) // scheduling point: who enters the critical section next
		if m.TryLock() {
			return
		}
		s.mu.Lock()
		if !gs.active {
			s.mu.Unlock()
			m.Lock()
			return
		}
		park(site, gs.me(), m) // not eligible until somebody unlocks m
	}
}

// RLock replaces mu.RLock().
func RLock(site string, m rlocker) {
	for {
		s.mu.Lock()
		if !gs.active {
			s.mu.Unlock()
			m.RLock()
			return
		}
		park(site, gs.me(), nil)
		if m.TryRLock() {
			return
		}
		s.mu.Lock()
		if !gs.active {
			s.mu.Unlock()
			m.RLock()
			return
		}
		park(site, gs.me(), m)
	}
}

func released(m any) {
	s.mu.Lock()
	if gs.active {
		for _, p := range gs.parked {
			if p.waitsOn == m {
				p.waitsOn = nil
			}
		}
		select {
		case gs.wake <- struct{}{}:
		default:
		}
	}
	s.mu.Unlock()
}

// Unlock replaces mu.Unlock().
func Unlock(m interface{ Unlock() }) {
	m.Unlock()
	released(m)
}

// RUnlock replaces mu.RUnlock().
func RUnlock(m interface{ RUnlock() }) {
	m.RUnlock()
	released(m)
}

// OnceDo replaces o.Do(f) for sync.Once. A goroutine parked inside f (at a
// preemption point) would otherwise leave every other caller blocked on the
// Once's internal mutex, which the bubble cannot see through; here the others
// park as waiters of o and become eligible when f has returned.
func OnceDo(site string, o *sync.Once, f func()) {
	for {
		s.mu.Lock()
		if !gs.active {
			s.mu.Unlock()
			o.Do(f)
			return
		}
		switch gs.once[o] {
		case 0:
			if gs.once == nil {
				gs.once = map[*sync.Once]int{}
			}
			gs.once[o] = 1
			s.mu.Unlock()
			func() {
				defer func() {
					s.mu.Lock()
					if gs.active {
						gs.once[o] = 2
					}
					s.mu.Unlock()
					released(o)
				}()
				o.Do(f)
			}()
			return
		case 2:
			s.mu.Unlock()
			o.Do(f)
			return
		}
		park(site, gs.me(), o)
	}
}

func scheduler() {
	for {
		synctestWait()
		s.mu.Lock()
		var elig []*parkedG
		for _, p := range gs.parked {
			if p.waitsOn == nil {
				elig = append(elig, p)
			}
		}
		if len(elig) == 0 && len(gs.parked) > 0 {
			// only mutex waiters are left: the holder is not one of ours (or
			// the code under test deadlocked); let them all retry once
			for _, p := range gs.parked {
				p.waitsOn = nil
			}
			elig = append(elig, gs.parked...)
			gs.retries++
			if gs.retries > 1000 {
				// a genuine lock cycle: stop scheduling, the bubble reports the deadlock
				gs.parked = nil
				s.mu.Unlock()
				<-gs.done
				return
			}
		}
		if len(elig) == 0 {
			if gs.fin {
				s.mu.Unlock()
				return
			}
			wake, done := gs.wake, gs.done
			s.mu.Unlock()
			select {
			case <-wake:
			case <-done:
			}
			continue
		}
		sort.Slice(elig, func(a, b int) bool {
			if elig[a].id != elig[b].id {
				return elig[a].id < elig[b].id
			}
			return elig[a].seq < elig[b].seq
		})
		n := len(elig)
		mode := s.cfg.GoMode
		idx := 0
		if n >= 2 {
			v := s.decide("gosched", elig[0].site, n, func(r *rng) uint64 {
				m := mode
				if m == "mix" {
					m = []string{"fifo", "lifo", "random", "random"}[r.intn(4)]
				}
				switch m {
				case "lifo":
					return uint64(n - 1)
				case "random":
					return uint64(r.intn(n))
				}
				return 0
			})
			idx = int(v % uint64(n))
			if idx != 0 {
				s.rec.Fired["gosched"]++
			}
			key := "gosched:" + elig[0].site
			st := s.rec.Sites[key]
			st.Execs++
			st.Execs2++
			if idx != 0 {
				st.NonIdentity++
			}
			if n > st.MaxKeys {
				st.MaxKeys = n
			}
			s.rec.Sites[key] = st
		}
		p := elig[idx]
		for i, q := range gs.parked {
			if q == p {
				gs.parked = append(gs.parked[:i], gs.parked[i+1:]...)
				break
			}
		}
		s.mu.Unlock()
		close(p.ch)
	}
}

// RunWorld executes f as the main goroutine of a world. In bubble worlds it
// returns a non-empty string when the world deadlocked.
func RunWorld(f func()) (deadlock string) {
	s.mu.Lock()
	bubble := s.cfg.Bubble
	pe := s.cfg.PreemptEvery
	s.mu.Unlock()
	if !bubble {
		f()
		return ""
	}
	preemptOn.Store(pe > 0)
	defer func() {
		preemptOn.Store(false)
		s.mu.Lock()
		gs.active = false
		gs.parked = nil
		s.mu.Unlock()
		if r := recover(); r != nil {
			msg := fmt.Sprint(r)
			deadlock = "bubble: " + msg
		}
	}()
	synctestRun(func() {
		s.mu.Lock()
		gs = goState{active: true, wake: make(chan struct{}, 1), done: make(chan struct{}), byGoid: map[uint64]*simG{}}
		gs.byGoid[goid()] = &simG{id: 0}
		done := gs.done
		s.mu.Unlock()
		go scheduler()
		defer func() {
			s.mu.Lock()
			gs.fin = true
			s.mu.Unlock()
			close(done)
		}()
		f()
	})
	return ""
}

//go:build verif

package simrt

import (
	"fmt"
	"sort"
	_ "unsafe" // for linkname
)

// Goroutine scheduling seam.
//
// The rewriter turns every `go` statement of the repository into
//
//	id := simrt.Spawn(site)
//	go func() { simrt.Park(id, site); <original call> }()
//	simrt.Yield(site)
//
// In a bubble world (Config.Bubble) the whole world runs inside a
// runtime synctest bubble (internal/synctest, reached by linkname; the scratch
// build passes -ldflags=-checklinkname=0). Spawned goroutines and the yielding
// parent park on private channels; one scheduler goroutine waits until every
// other goroutine of the bubble is durably blocked (synctest.Wait), then
// releases exactly one parked goroutine, chosen by the world's PRNG (choice
// kind "gosched"). Released goroutines run until they finish, park again or
// block durably, so the interleaving is a sequence of coarse, non-preemptive
// steps fully determined by the choice log: replayable and shrinkable.
// Decision 0 = the parked goroutine with the lowest id = spawn order.
//
// Outside bubble worlds the three calls are no-ops and `go` behaves natively.

//go:linkname synctestRun internal/synctest.Run
func synctestRun(f func())

//go:linkname synctestWait internal/synctest.Wait
func synctestWait()

type parkedG struct {
	id   int
	site string
	ch   chan struct{}
}

type goState struct {
	active bool
	parked []parkedG
	nextID int
	wake   chan struct{}
	done   chan struct{}
	fin    bool
}

var gs goState

// Spawn allocates the id of a goroutine about to be started.
func Spawn(site string) int {
	s.mu.Lock()
	defer s.mu.Unlock()
	gs.nextID++
	return gs.nextID
}

// Park is the first thing a spawned goroutine does.
func Park(id int, site string) {
	s.mu.Lock()
	if !gs.active {
		s.mu.Unlock()
		return
	}
	ch := make(chan struct{})
	gs.parked = append(gs.parked, parkedG{id, site, ch})
	wake := gs.wake
	s.mu.Unlock()
	select {
	case wake <- struct{}{}:
	default:
	}
	<-ch
}

// Yield parks the running goroutine right after it started another one, so
// that the scheduler may run the child before the parent's next statement.
func Yield(site string) {
	s.mu.Lock()
	if !gs.active {
		s.mu.Unlock()
		return
	}
	gs.nextID++
	id := gs.nextID
	s.mu.Unlock()
	Park(id, site)
}

func scheduler() {
	for {
		synctestWait()
		s.mu.Lock()
		if len(gs.parked) == 0 {
			if gs.fin {
				s.mu.Unlock()
				return
			}
			wake, done := gs.wake, gs.done
			s.mu.Unlock()
			select {
			case <-wake:
			case <-done:
			}
			continue
		}
		sort.Slice(gs.parked, func(a, b int) bool { return gs.parked[a].id < gs.parked[b].id })
		n := len(gs.parked)
		mode := s.cfg.GoMode
		idx := 0
		if n >= 2 {
			v := s.decide("gosched", gs.parked[0].site, n, func(r *rng) uint64 {
				m := mode
				if m == "mix" {
					m = []string{"fifo", "lifo", "random", "random"}[r.intn(4)]
				}
				switch m {
				case "lifo":
					return uint64(n - 1)
				case "random":
					return uint64(r.intn(n))
				}
				return 0
			})
			idx = int(v % uint64(n))
			if idx != 0 {
				s.rec.Fired["gosched"]++
			}
			st := s.rec.Sites["gosched:"+gs.parked[0].site]
			st.Execs++
			st.Execs2++
			if idx != 0 {
				st.NonIdentity++
			}
			if n > st.MaxKeys {
				st.MaxKeys = n
			}
			s.rec.Sites["gosched:"+gs.parked[0].site] = st
		}
		p := gs.parked[idx]
		gs.parked = append(gs.parked[:idx], gs.parked[idx+1:]...)
		s.mu.Unlock()
		close(p.ch)
	}
}

// RunWorld executes f as the main goroutine of a world. In bubble worlds it
// returns a non-empty string when the world deadlocked.
func RunWorld(f func()) (deadlock string) {
	s.mu.Lock()
	bubble := s.cfg.Bubble
	s.mu.Unlock()
	if !bubble {
		f()
		return ""
	}
	defer func() {
		s.mu.Lock()
		gs.active = false
		gs.parked = nil
		s.mu.Unlock()
		if r := recover(); r != nil {
			msg := fmt.Sprint(r)
			deadlock = "bubble: " + msg
		}
	}()
	synctestRun(func() {
		s.mu.Lock()
		gs = goState{active: true, wake: make(chan struct{}, 1), done: make(chan struct{})}
		done := gs.done
		s.mu.Unlock()
		go scheduler()
		defer func() {
			s.mu.Lock()
			gs.fin = true
			s.mu.Unlock()
			close(done)
		}()
		f()
	})
	return ""
}

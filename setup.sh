#!/bin/sh
# Builds the framework from files on disk only (offline) and warms the Go
# build cache with one scratch build of /repo.
set -e
V="$(cd "$(dirname "$0")" && pwd)"
export GOFLAGS=-mod=mod GOPROXY=off GOSUMDB=off GOTOOLCHAIN=local GOWORK=off
GO="${VERIF_GO:-/usr/local/bin/go1.26.8}"
[ -x "$GO" ] || GO=/opt/veriftools/go1.26.8/bin/go
mkdir -p "$V/bin" "$V/evidence" "$V/replays"
cd "$V"
"$GO" build -o bin/check ./cmd/check
"$GO" build -o bin/simrewrite ./cmd/simrewrite
VERIF_WARM=1 ./bin/check warm || true

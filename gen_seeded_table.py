#!/usr/bin/env python3
"""Prints the markdown table of seeded changes (DESIGN.md 10.4) from seeded/*/meta.json."""
import json, glob, os
rows = []
for p in sorted(glob.glob('/verif/seeded/*/meta.json')):
    m = json.load(open(p))
    rows.append(m)
print("| id | breaks | needs, in order to manifest | caught by | history |")
print("|---|---|---|---|---|")
for m in rows:
    f = lambda s: s.replace('|', '\\|').replace('\n', ' ')
    print("| %s | %s | %s | %s | %s |" % (m['id'], m['breaks_property'], f(m['needs_to_manifest']), f(m['caught_by']), f(m['history'])))
